#!/usr/bin/env python3
"""Regenerates MANIFEST.json from the table below (kept in one place so the
manifest is always valid and consistent with what bin/check supports)."""
import json, os, subprocess
V = os.path.dirname(os.path.dirname(os.path.abspath(__file__)))

claimed = json.load(open(os.path.join(V, "claims.json")))
na = json.load(open(os.path.join(V, "not_applicable.json")))
hooks_commits = claimed.get("hook_commits", [])
checks = []
for c in claimed["checks"]:
    i = c["id"]
    checks.append({
        "property_id": i,
        "quick_cmd": f"./bin/check {i} --tier quick",
        "thorough_cmd": f"./bin/check {i} --tier thorough",
        "evidence_file": f"evidence/{i}.json",
        "replay_cmd_template": f"./bin/check {i} --replay {{path}}",
        "engine": c["engine"],
        "level_claimed": {"category": "exploration", "text": c["level_text"], "design_ref": c["design_ref"]},
        "level_note": c["level_note"],
        "technique": c["technique"],
    })
m = {
    "version": 1,
    "setup_cmd": "./bin/setup",
    "hooks": {
        "guard": "verif",
        "enable": "go build -tags verif (bin/build.sh builds /verif/sim against /repo's working tree through a generated -modfile with a replace directive; the race-instrumented variant used by C20 adds -race and is built from a scratch copy of that tree, .build/repo-inst, in which sim/cmd/instrument inserts statement-level simulation points; two workers of the single-task engines use a GOARCH=386 build)",
        "baseline_off_cmd": "cd /repo && go test -mod=mod -json -vet=off -count=1 -timeout 25m ./...",
        "source_commits": hooks_commits,
        "add_only": True,
    },
    "engines": claimed["engines"],
    "checks": checks,
    "notes": claimed["notes"],
    "not_applicable": na,
}
json.dump(m, open(os.path.join(V, "MANIFEST.json"), "w"), indent=1)
print("MANIFEST.json written:", len(checks), "checks,", len(na), "not applicable")
