#!/bin/bash
# build.sh plain|race : (re)build the runner against /repo's current working
# tree with the hooks enabled. Build trouble exits 2 (never a VIOLATION).
set -u
. "$(dirname "$0")/env.sh"
cd "$VERIF_DIR/sim" || exit 2
case "$1" in
 plain) go build -tags verif -o "$VERIF_BUILD/runner" ./cmd/runner 2> "$VERIF_BUILD/build-plain.log" || { cat "$VERIF_BUILD/build-plain.log" >&2; echo "BUILD-ERROR: runner does not build against /repo" >&2; exit 2; } ;;
 race)  go build -race -tags verif -o "$VERIF_BUILD/runner-race" ./cmd/runner 2> "$VERIF_BUILD/build-race.log" || { cat "$VERIF_BUILD/build-race.log" >&2; echo "BUILD-ERROR: race runner does not build against /repo" >&2; exit 2; } ;;
esac
