#!/bin/bash
# build.sh plain|race : (re)build the runner against /repo's current working
# tree with the hooks enabled. Build trouble exits 2 (never a VIOLATION).
set -u
. "$(dirname "$0")/env.sh"
cd "$VERIF_DIR/sim" || exit 2
case "$1" in
 plain)
  sed "s#=> /repo#=> $VERIF_REPO#" go.mod > "$VERIF_BUILD/go.plain.mod" && cp go.sum "$VERIF_BUILD/go.plain.sum"
  # a 32-bit build of the same runner: two workers of the single-task engines use it (int is 32 bits there)
  GOARCH=386 go build -tags verif -modfile="$VERIF_BUILD/go.plain.mod" -o "$VERIF_BUILD/runner-386" ./cmd/runner 2> "$VERIF_BUILD/build-386.log" || rm -f "$VERIF_BUILD/runner-386"
  go build -tags verif -modfile="$VERIF_BUILD/go.plain.mod" -o "$VERIF_BUILD/runner" ./cmd/runner 2> "$VERIF_BUILD/build-plain.log" || { cat "$VERIF_BUILD/build-plain.log" >&2; echo "BUILD-ERROR: runner does not build against /repo" >&2; exit 2; } ;;
 race)
  # C20 builds against a scratch copy of /repo's working tree in which a
  # simulation point is inserted before every statement of the packages under
  # test (same line, so reported line numbers match /repo); /repo is not touched.
  INST="$VERIF_BUILD/repo-inst"
  mkdir -p "$INST" && rsync -a --delete --exclude .git "$VERIF_REPO/" "$INST/" || { echo "BUILD-ERROR: cannot copy /repo" >&2; exit 2; }
  go build -o "$VERIF_BUILD/instrument" ./cmd/instrument 2> "$VERIF_BUILD/build-race.log" || { cat "$VERIF_BUILD/build-race.log" >&2; exit 2; }
  # every non-test source file of the two packages (also ones a change adds), except the hook files themselves
  BLOOM_FILES=$(ls "$INST"/bloom/*.go | grep -v '_test.go$' | grep -v '/simhook_' | grep -v '/simsites.go$')
  GCS_FILES=$(ls "$INST"/gcs/*.go | grep -v '_test.go$' | grep -v '/simhook_' | grep -v '/simsites.go$' | grep -v '/doc.go$')
  "$VERIF_BUILD/instrument" 'simPoint(20, nil); ' $BLOOM_FILES > "$VERIF_BUILD/instrument.log" 2>&1 \
    && "$VERIF_BUILD/instrument" 'simPoint(20); ' $GCS_FILES >> "$VERIF_BUILD/instrument.log" 2>&1 \
    || { cat "$VERIF_BUILD/instrument.log" >&2; echo "BUILD-ERROR: instrumentation failed" >&2; exit 2; }
  # every OTHER package of the repository (root package, merkleblock, sub-packages
  # a change may add under bloom/ or gcs/, ...) gets its statements instrumented
  # too, through a hub package that exists only in the scratch copy
  mkdir -p "$INST/zzsimhub" && printf 'package zzsimhub\n\n// Hook is set by the verification harness (scratch copy only).\nvar Hook func(site int)\n' > "$INST/zzsimhub/hub.go"
  ( cd "$INST" && go list -f '{{.Dir}} {{.Name}}' ./... 2>> "$VERIF_BUILD/instrument.log" ) > "$VERIF_BUILD/pkgs.txt" || { cat "$VERIF_BUILD/instrument.log" >&2; echo "BUILD-ERROR: cannot list the repository's packages" >&2; exit 2; }
  while read -r dir pkg; do
    case "$dir" in "$INST/bloom"|"$INST/gcs"|"$INST/zzsimhub"|"$INST"/jsonpb*) continue ;; esac
    files=$(ls "$dir"/*.go 2>/dev/null | grep -v '_test.go$' | grep -v 'zz_simhook_auto.go$')
    [ -n "$files" ] || continue
    printf 'package %s\n\nimport zzsimhub "github.com/gcash/bchutil/zzsimhub"\n\nfunc simPointAuto(site int) {\n\tif h := zzsimhub.Hook; h != nil {\n\t\th(site)\n\t}\n}\n' "$pkg" > "$dir/zz_simhook_auto.go"
    "$VERIF_BUILD/instrument" 'simPointAuto(21); ' $files >> "$VERIF_BUILD/instrument.log" 2>&1 || { cat "$VERIF_BUILD/instrument.log" >&2; echo "BUILD-ERROR: instrumentation failed in $dir" >&2; exit 2; }
  done < "$VERIF_BUILD/pkgs.txt"
  sed "s#=> /repo#=> $INST#" go.mod > "$VERIF_BUILD/go.race.mod" && cp go.sum "$VERIF_BUILD/go.race.sum"
  go build -race -tags verif -modfile="$VERIF_BUILD/go.race.mod" -o "$VERIF_BUILD/runner-race" ./cmd/runner 2> "$VERIF_BUILD/build-race.log" || { cat "$VERIF_BUILD/build-race.log" >&2; echo "BUILD-ERROR: race runner does not build against /repo" >&2; exit 2; } ;;
esac
