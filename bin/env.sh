# sourced by bin/setup, bin/check, bin/build.sh: offline Go environment and paths
export GOFLAGS=-mod=mod GOPROXY=off GOSUMDB=off GOTOOLCHAIN=local
if [ -z "${VERIF_DIR:-}" ]; then
  VERIF_DIR="$(cd "$(dirname "${BASH_SOURCE[0]}")/.." && pwd)"
fi
export VERIF_DIR
export VERIF_BUILD="$VERIF_DIR/.build"
# the tree under test (always /repo for the registered checks; development
# aids may point it at a scratch copy)
export VERIF_REPO="${VERIF_REPO:-/repo}"
export GOCACHE="${GOCACHE:-$VERIF_BUILD/gocache}"
mkdir -p "$VERIF_BUILD"
