# sourced by bin/setup, bin/check, bin/build.sh: offline Go environment and paths
export GOFLAGS=-mod=mod GOPROXY=off GOSUMDB=off GOTOOLCHAIN=local
if [ -z "${VERIF_DIR:-}" ]; then
  VERIF_DIR="$(cd "$(dirname "${BASH_SOURCE[0]}")/.." && pwd)"
fi
export VERIF_DIR
export VERIF_BUILD="$VERIF_DIR/.build"
export GOCACHE="${GOCACHE:-$VERIF_BUILD/gocache}"
mkdir -p "$VERIF_BUILD"
