# sourced by bin/setup and bin/check: offline Go environment and paths
export GOFLAGS=-mod=mod GOPROXY=off GOSUMDB=off GOTOOLCHAIN=local
export VERIF_DIR="${VERIF_DIR:-/verif}"
export VERIF_BUILD="$VERIF_DIR/.build"
export GOCACHE="${GOCACHE:-$VERIF_BUILD/gocache}"
mkdir -p "$VERIF_BUILD"
