// Package simio is the simulated I/O seam: a reader that serves a byte string
// under an explicit, replayable fault plan (short reads, (0,nil) returns,
// data together with EOF, early EOF = torn/lost suffix, injected error with
// or without bytes in the same call).
package simio

import (
	"errors"
	"fmt"
	"io"
	"strconv"
	"strings"

	"verif/sim/kit"
)

// ErrSim is the injected I/O error.
var ErrSim = errors.New("simio: injected read error")

// Plan is a fault plan. Its string form is what replay files carry.
type Plan struct {
	Chunks      []int  // successive maximal read sizes, cycled; 0 = one (0,nil) return
	EOFWithData bool   // deliver the last bytes together with io.EOF
	FaultKind   string // "", "eof", "err", "err+data", "transient" (an error reported once together with data; the stream then continues)
	FaultAt     int    // offset at which the fault lands
}

func (p Plan) String() string {
	var c []string
	for _, n := range p.Chunks {
		c = append(c, strconv.Itoa(n))
	}
	s := "c=" + strings.Join(c, ",")
	if p.EOFWithData {
		s += ";ewd"
	}
	if p.FaultKind != "" {
		s += fmt.Sprintf(";f=%s@%d", p.FaultKind, p.FaultAt)
	}
	return s
}

// ParsePlan reads the string form; malformed parts are ignored (robust
// against shrinking).
func ParsePlan(s string) Plan {
	var p Plan
	for _, part := range strings.Split(s, ";") {
		switch {
		case strings.HasPrefix(part, "c="):
			for _, x := range strings.Split(part[2:], ",") {
				if n, err := strconv.Atoi(x); err == nil && n >= 0 {
					p.Chunks = append(p.Chunks, n)
				}
			}
		case part == "ewd":
			p.EOFWithData = true
		case strings.HasPrefix(part, "f="):
			kv := strings.SplitN(part[2:], "@", 2)
			if len(kv) == 2 {
				if n, err := strconv.Atoi(kv[1]); err == nil && n >= 0 {
					switch kv[0] {
					case "eof", "err", "err+data", "transient":
						p.FaultKind, p.FaultAt = kv[0], n
					}
				}
			}
		}
	}
	return p
}

// DrawBenign draws a plan without destructive faults.
func DrawBenign(r *kit.Rng) Plan {
	var p Plan
	switch r.Intn(5) {
	case 0:
		p.Chunks = []int{1} // one-byte drip
	case 1:
		p.Chunks = []int{1 << 20} // everything at once
	default:
		for i, n := 0, r.Range(1, 6); i < n; i++ {
			switch r.Intn(6) {
			case 0:
				p.Chunks = append(p.Chunks, 0)
			case 1:
				p.Chunks = append(p.Chunks, 1)
			default:
				p.Chunks = append(p.Chunks, r.Range(1, 97))
			}
		}
	}
	// never only zero-length chunks
	nz := false
	for _, c := range p.Chunks {
		if c > 0 {
			nz = true
		}
	}
	if !nz {
		p.Chunks = append(p.Chunks, 3)
	}
	p.EOFWithData = r.Chance(1, 2)
	return p
}

// DrawDestructive draws a plan whose fault lands inside the first n bytes.
func DrawDestructive(r *kit.Rng, n int) Plan {
	p := DrawBenign(r)
	p.FaultKind = []string{"eof", "err", "err+data"}[r.Intn(3)]
	switch r.Intn(4) {
	case 0:
		p.FaultAt = 0
	case 1:
		p.FaultAt = n - 1
	case 2:
		p.FaultAt = r.Intn(minInt(n, 90))
	default:
		p.FaultAt = r.Intn(n)
	}
	if p.FaultAt < 0 {
		p.FaultAt = 0
	}
	return p
}

// DrawTransient draws a plan with one transient error reported together
// with data somewhere inside the first n bytes.
func DrawTransient(r *kit.Rng, n int) Plan {
	p := DrawBenign(r)
	p.FaultKind = "transient"
	p.FaultAt = r.Intn(n)
	return p
}

func minInt(a, b int) int {
	if a < b {
		return a
	}
	return b
}

// Reader serves data under a plan and counts what actually fired.
type Reader struct {
	data          []byte
	off           int
	plan          Plan
	ci            int
	zeros         int
	transientDone bool
	Fired         map[string]int
	Reads         int
}

// NewReader builds the reader.
func NewReader(data []byte, plan Plan) *Reader {
	if len(plan.Chunks) == 0 {
		plan.Chunks = []int{1 << 20}
	}
	return &Reader{data: data, plan: plan, Fired: map[string]int{}}
}

// Offset tells how far the consumer got.
func (r *Reader) Offset() int { return r.off }

// Read implements io.Reader.
func (r *Reader) Read(p []byte) (int, error) {
	r.Reads++
	if len(p) == 0 {
		return 0, nil
	}
	faulty := r.plan.FaultKind != ""
	if faulty && r.plan.FaultKind == "transient" {
		if r.transientDone || r.off >= len(r.data) {
			faulty = false
		}
	}
	if faulty && r.off >= r.plan.FaultAt && r.plan.FaultKind != "err+data" && r.plan.FaultKind != "transient" {
		if r.plan.FaultKind == "eof" {
			r.Fired["early-eof"]++
			return 0, io.EOF
		}
		r.Fired["injected-error"]++
		return 0, ErrSim
	}
	if faulty && r.plan.FaultKind == "err+data" && r.off >= r.plan.FaultAt {
		r.Fired["injected-error"]++
		return 0, ErrSim
	}
	if r.off >= len(r.data) {
		return 0, io.EOF
	}
	chunk := r.plan.Chunks[r.ci%len(r.plan.Chunks)]
	r.ci++
	if chunk == 0 {
		r.zeros++
		if r.zeros <= 64 {
			r.Fired["zero-length-read"]++
			return 0, nil
		}
		chunk = 1
	}
	n := minInt(minInt(len(p), chunk), len(r.data)-r.off)
	if faulty && r.plan.FaultKind == "transient" {
		if r.off+n >= r.plan.FaultAt {
			// deliver these bytes AND an error, once; later reads go on
			copy(p, r.data[r.off:r.off+n])
			r.off += n
			r.transientDone = true
			r.Fired["transient-error-with-data"]++
			return n, ErrSim
		}
	} else if faulty && r.off+n > r.plan.FaultAt {
		n = r.plan.FaultAt - r.off
		if r.plan.FaultKind == "err+data" {
			// bytes and the error in the same call
			if n < 0 {
				n = 0
			}
			copy(p, r.data[r.off:r.off+n])
			r.off += n
			r.Fired["injected-error-with-data"]++
			return n, ErrSim
		}
	}
	copy(p, r.data[r.off:r.off+n])
	r.off += n
	if n < len(p) && n < len(r.data)-r.off+n {
		r.Fired["short-read"]++
	}
	if r.off == len(r.data) && r.plan.EOFWithData && n > 0 {
		r.Fired["data-with-eof"]++
		return n, io.EOF
	}
	return n, nil
}
