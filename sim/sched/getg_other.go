//go:build !amd64

package sched

// getg falls back to the goroutine id parsed from the stack header.
//
//go:norace
func getg() uintptr { return uintptr(curGoid()) }
