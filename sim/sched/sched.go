// Package sched is the seeded goroutine scheduler ("simsched"): real
// goroutines run the real code and block on the real sync.Mutex, but which of
// them runs between two simulation points is decided here, from the run's
// PRNG stream or from an explicit replay list.
//
// The Go race detector must stay meaningful, so the hand-off uses no channel,
// atomic or lock (each would add a happens-before edge between any two steps
// and hide every race). The process runs with GOMAXPROCS(1); scheduler state
// is plain memory touched only from //go:norace functions; a task that is not
// the current one spins on runtime.Gosched(), which creates no edge. The only
// edges the detector sees are those of the code under test (its mutex) and
// goroutine creation / WaitGroup join at the ends of a run.
package sched

import (
	"fmt"
	"runtime"
	"sync"
	"unsafe"

	"verif/sim/kit"
)

// Policies.
const (
	PolUniform = iota
	PolSticky
	PolPCT
)

const none = -1

// idle: nobody is current; a task released from the runtime may claim the
// baton, or the lowest waiting task re-decides after StallSpins rotations.
const idle = -3

// MaxSites bounds site numbers.
const MaxSites = 64

// Sched is one run's scheduler.
type Sched struct {
	n       int
	done    []bool
	started []bool
	waitMu  []*sync.Mutex
	current int

	rng        *kit.Rng
	replayMode bool
	replay     []int
	rpos       int

	Choices  []int
	nch      int
	Steps    int
	MaxSteps int
	clock    int64

	Sites    [MaxSites]bool
	GateSite int
	// Statement-level sites (inserted automatically before every statement
	// of the packages under test) offer a decision only every SparseEvery-th
	// time they are reached.
	SparseSites [MaxSites]bool
	SparseEvery int
	sparseCnt   int

	Policy   int
	StayNum  int // sticky: stay with probability StayNum/16
	prio     []int
	changeAt []int
	lowest   int

	abort     bool
	Deadlock  bool
	StepBound bool

	Sig        kit.Hash64
	BlockedObs int // decisions at which some task was blocked on the real mutex
	SiteHits   [MaxSites]int
	Preempts   int // decisions that switched away from a still-enabled task

	Record bool
	rawLog []int
	nlog   int

	// Tasks found blocked inside the Go runtime (a real Lock that no gate
	// precedes, an RWMutex, a channel ...): the simulator carries on with the
	// others and re-synchronises with such a task at its next simulation
	// point. Detection is by rotation counting, not by a clock: with one P a
	// runnable current task is scheduled once per Gosched rotation of the
	// waiters, so StallSpins rotations without a decision mean it is not
	// runnable.
	rtBlocked  []bool
	abandoned  []bool
	goid       []int64
	gptr       []uintptr // g pointer of every task goroutine (identity)
	Foreign    int       // simulation points reached by goroutines that are not tasks (ignored)
	spin       []int
	seenStep   []int
	nRT        int
	RTBlocks   int
	StallSpins int

	// LastMu is the mutex most recently seen at a gate site: lets the harness
	// notice a mutex left locked after every operation has returned.
	LastMu *sync.Mutex

	wg sync.WaitGroup
}

// progress is bumped at every decision; the watchdog reads it.
var progress int64

// Progress returns the global decision counter (watchdog only).
//
//go:norace
func Progress() int64 { return progress }

//go:norace
func bump() { progress++ }

var inRun bool

// SetInRun marks the start / end of a scheduled run (watchdog only).
//
//go:norace
func SetInRun(b bool) { inRun = b }

// InRun reports whether a scheduled run is in progress (watchdog only).
//
//go:norace
func InRun() bool { return inRun }

// MutexLocked reads the locked bit of a real sync.Mutex without touching it
// (no TryLock: an acquire/release pair would add happens-before edges).
//
//go:norace
func MutexLocked(mu *sync.Mutex) bool {
	return *(*int32)(unsafe.Pointer(mu))&1 != 0
}

// SelfTestMutexLayout verifies the assumption MutexLocked depends on.
func SelfTestMutexLayout() error {
	var mu sync.Mutex
	if MutexLocked(&mu) {
		return fmt.Errorf("fresh mutex reads as locked")
	}
	mu.Lock()
	if !MutexLocked(&mu) {
		return fmt.Errorf("locked mutex reads as unlocked: sync.Mutex layout changed")
	}
	mu.Unlock()
	if MutexLocked(&mu) {
		return fmt.Errorf("unlocked mutex reads as locked")
	}
	type wrap struct {
		a  int64
		mu sync.Mutex
	}
	w := &wrap{}
	w.mu.Lock()
	ok := MutexLocked(&w.mu)
	w.mu.Unlock()
	if !ok || MutexLocked(&w.mu) {
		return fmt.Errorf("embedded mutex misread")
	}
	return nil
}

// New makes a scheduler for n tasks. In generate mode rng is the run's
// schedule stream; in replay mode rng is nil and replay is the choice list
// (-1 = "stay on the current task if it is enabled, else lowest enabled id").
func New(n int, rng *kit.Rng, replay []int, maxSteps int) *Sched {
	s := &Sched{n: n, rng: rng, replay: replay, replayMode: rng == nil, MaxSteps: maxSteps, current: none, Sig: kit.NewHash()}
	s.done = make([]bool, n)
	s.started = make([]bool, n)
	s.waitMu = make([]*sync.Mutex, n)
	s.Choices = make([]int, 0, 2048)
	s.prio = make([]int, n)
	s.rtBlocked = make([]bool, n)
	s.abandoned = make([]bool, n)
	s.goid = make([]int64, n)
	s.gptr = make([]uintptr, n)
	s.spin = make([]int, n)
	s.seenStep = make([]int, n)
	s.StallSpins = 20000
	return s
}

// SetPCT configures the priority-change policy: random initial priorities
// and d change points among the first horizon decisions.
func (s *Sched) SetPCT(r *kit.Rng, d, horizon int) {
	s.Policy = PolPCT
	for i := range s.prio {
		s.prio[i] = 1000 + i
	}
	for i := s.n - 1; i > 0; i-- {
		j := r.Intn(i + 1)
		s.prio[i], s.prio[j] = s.prio[j], s.prio[i]
	}
	s.lowest = 999
	for i := 0; i < d; i++ {
		s.changeAt = append(s.changeAt, 1+r.Intn(horizon))
	}
}

//go:norace
func (s *Sched) enabled(t int) bool {
	if s.done[t] || s.rtBlocked[t] {
		return false
	}
	if mu := s.waitMu[t]; mu != nil && MutexLocked(mu) {
		return false
	}
	return true
}

// pick chooses the next task; me is the deciding task (none when it has just
// finished or at start).
//
//go:norace
func (s *Sched) pick(me int) int {
	var en [128]int
	ne := 0
	blocked := false
	for t := 0; t < s.n; t++ {
		if s.enabled(t) {
			if ne < len(en) {
				en[ne] = t
				ne++
			}
		} else if !s.done[t] {
			blocked = true
		}
	}
	if blocked {
		s.BlockedObs++
	}
	if ne == 0 {
		return none
	}
	meEnabled := me != none && s.enabled(me)
	var next int
	if s.replayMode {
		c := -1
		if s.rpos < len(s.replay) {
			c = s.replay[s.rpos]
		}
		s.rpos++
		if c >= 0 && c < s.n && s.enabled(c) {
			next = c
		} else if meEnabled {
			next = me
		} else {
			next = en[0]
		}
	} else {
		switch s.Policy {
		case PolSticky:
			if meEnabled && s.rng.Intn(16) < s.StayNum {
				next = me
			} else {
				next = en[s.rng.Intn(ne)]
			}
		case PolPCT:
			for _, at := range s.changeAt {
				if at == s.Steps && me != none {
					s.prio[me] = s.lowest
					s.lowest--
				}
			}
			next = en[0]
			for i := 1; i < ne; i++ {
				if s.prio[en[i]] > s.prio[next] {
					next = en[i]
				}
			}
		default:
			next = en[s.rng.Intn(ne)]
		}
	}
	if meEnabled && next != me {
		s.Preempts++
	}
	if s.nch < 1<<17 { // choices beyond this are not recorded (a replay then falls back to "stay")
		// (append in a norace function: growslice only annotates a READ of
		// the old array, which no instrumented code ever wrote)
		s.Choices = append(s.Choices, next)
		s.nch++
	}
	return next
}

// EnableLog preallocates the event log (replay mode).
func (s *Sched) EnableLog() {
	s.Record = true
	n := s.MaxSteps + s.n + 8
	if n > 1<<17 {
		n = 1 << 17
	}
	s.rawLog = make([]int, 4*n)
}

// Log formats the recorded decisions (call after Run).
func (s *Sched) Log() []string {
	var out []string
	for i := 0; i+4 <= s.nlog; i += 4 {
		out = append(out, fmt.Sprintf("step %d: task %d at site %d -> run task %d", s.rawLog[i], s.rawLog[i+1], s.rawLog[i+2], s.rawLog[i+3]))
	}
	return out
}

// Chosen returns the recorded choice list.
func (s *Sched) Chosen() []int { return append([]int(nil), s.Choices[:s.nch]...) }

//go:norace
func (s *Sched) wait(me int) {
	for s.current != me {
		if s.abort {
			runtime.Goexit()
		}
		runtime.Gosched()
		if s.seenStep[me] != s.Steps || s.current == none {
			s.seenStep[me], s.spin[me] = s.Steps, 0
			continue
		}
		s.spin[me]++
		if s.spin[me] > s.StallSpins {
			s.takeOver(me)
		}
	}
	s.spin[me] = 0
}

// takeOver is reached by a waiting task when the current task has not come
// to a decision for StallSpins rotations: it is blocked inside the runtime.
// Only the lowest-numbered waiting task acts, so the outcome does not depend
// on which waiter noticed first.
//
//go:norace
func (s *Sched) takeOver(me int) {
	x := s.current
	if x == me || x == none {
		return
	}
	if x >= 0 && (s.done[x] || s.rtBlocked[x]) {
		return
	}
	for t := 0; t < me; t++ {
		if t != x && !s.done[t] && !s.rtBlocked[t] {
			return // a lower-numbered waiter will act
		}
	}
	s.spin[me] = 0
	if x >= 0 {
		s.rtBlocked[x] = true
		s.nRT++
		s.RTBlocks++
	}
	s.Steps++
	bump()
	next := s.pick(none)
	s.note(x, 63, next)
	if next != none {
		s.current = next
		return
	}
	if x == idle {
		// nobody became runnable during a whole stall period: the tasks
		// blocked inside the runtime are blocked for good
		s.Deadlock = true
		s.abortAll()
		runtime.Goexit()
	}
	s.current = idle
}

// drain lets tasks that the runtime has released since the last decision
// reach their next simulation point (where they re-join the waiters), so that
// whether they take part in this decision does not depend on the Go
// scheduler: with one P a released task runs at the first Gosched and is at
// its next simulation point well within a few rotations.
//
//go:norace
func (s *Sched) drain() {
	if s.nRT == 0 {
		return
	}
	for i := 0; i < 64; i++ {
		runtime.Gosched()
	}
}

// abortAll cuts the run; tasks blocked inside the runtime cannot exit, so
// the join is released on their behalf and they are abandoned.
//
//go:norace
func (s *Sched) abortAll() {
	s.abort = true
	for t := 0; t < s.n; t++ {
		if s.rtBlocked[t] && !s.abandoned[t] {
			s.abandoned[t] = true
			s.wg.Done()
		}
	}
}

// curGoid parses the goroutine id from the stack header (only used while
// some task is blocked inside the runtime).
//
//go:norace
func curGoid() int64 {
	var buf [64]byte
	n := runtime.Stack(buf[:], false)
	var id int64
	for i := len("goroutine "); i < n && buf[i] >= '0' && buf[i] <= '9'; i++ {
		id = id*10 + int64(buf[i]-'0')
	}
	return id
}

// resync is called at a simulation point while some task is blocked inside
// the runtime: the caller may be such a task that has just been released. It
// then waits for its turn like any other task. Returns the caller's id.
//
//go:norace
func (s *Sched) resync(g uintptr) int {
	for t := 0; t < s.n; t++ {
		if s.gptr[t] == g {
			if s.rtBlocked[t] {
				s.rtBlocked[t] = false
				s.nRT--
				if s.current == idle {
					s.Steps++
					bump()
					s.note(t, 62, t)
					s.current = t
				} else {
					s.wait(t)
				}
			}
			return t
		}
	}
	return none
}

//go:norace
func (s *Sched) note(me, site, next int) {
	s.Sig = s.Sig.Int(int64(me)<<16 | int64(site)<<8 | int64(next+1))
	if s.Record && s.nlog+4 <= len(s.rawLog) {
		// raw integers only: formatting here would go through sync.Pool, whose
		// race annotations would add happens-before edges between tasks
		s.rawLog[s.nlog], s.rawLog[s.nlog+1], s.rawLog[s.nlog+2], s.rawLog[s.nlog+3] = s.Steps, me, site, next
		s.nlog += 4
	}
}

// Yield is a simulation point reached by the current task. mu is non-nil at
// sites that precede a Lock of that mutex: there the task is not enabled
// while the real mutex is held (by a task parked inside its critical
// section), whatever the site subset of this run says - a task that walked
// into the real Lock would block outside the simulator's control.
//
//go:norace
func (s *Sched) Yield(site int, mu *sync.Mutex) {
	if s.abort {
		return
	}
	me := s.current
	// Who is calling? Normally the current task. It may also be a task the
	// runtime has just released (it re-joins here), or a goroutine the code
	// under test spawned itself: those are not simulated and run freely.
	if g := getg(); me < 0 || s.gptr[me] != g {
		me = none
		if s.nRT > 0 {
			me = s.resync(g)
		}
		if me == none {
			s.Foreign++
			return
		}
	}
	if s.abort {
		return
	}
	if site >= 0 && site < MaxSites && s.SparseSites[site] {
		if !s.Sites[site] {
			return
		}
		s.sparseCnt++
		if s.SparseEvery > 1 && s.sparseCnt%s.SparseEvery != 0 {
			return
		}
	}
	gate := mu != nil && site == s.GateSite
	if gate {
		s.LastMu = mu
		if !s.Sites[site] && !MutexLocked(mu) {
			return
		}
		s.waitMu[me] = mu
	} else if !s.Sites[site] {
		return
	}
	s.drain()
	s.SiteHits[site]++
	s.Steps++
	bump()
	if s.Steps > s.MaxSteps {
		s.StepBound = true
		s.abortAll()
		runtime.Goexit()
	}
	next := s.pick(me)
	if next == none && s.nRT == 0 {
		s.Deadlock = true
		s.abortAll()
		s.note(me, site, next)
		runtime.Goexit()
	}
	s.note(me, site, next)
	if next == none {
		// only tasks blocked inside the runtime could still move: give them
		// a stall period to come back before calling it a deadlock
		s.current = idle
		s.wait(me)
	} else if next != me {
		s.current = next
		s.wait(me)
	}
	if gate {
		s.waitMu[me] = nil
	}
}

// Stamp returns the next global event sequence number (invoke / return
// events of the recorded history): a strict total order, not a clock.
//
//go:norace
func (s *Sched) Stamp() int64 {
	s.clock++
	return s.clock
}

//go:norace
func (s *Sched) finish(me int) {
	if s.abort {
		return
	}
	if s.rtBlocked[me] {
		// released from the runtime and ran to its end without meeting a
		// simulation point: it was never current again
		s.rtBlocked[me] = false
		s.nRT--
		s.done[me] = true
		if s.current == idle {
			next := s.pick(none)
			if next != none {
				s.current = next
			}
		}
		return
	}
	s.drain()
	s.done[me] = true
	s.Steps++
	bump()
	next := s.pick(none)
	s.note(me, 0, next)
	if next == none {
		for t := 0; t < s.n; t++ {
			if !s.done[t] {
				if s.nRT > 0 {
					s.current = idle
					return
				}
				s.Deadlock = true
				s.abortAll()
				return
			}
		}
		s.current = none
		return
	}
	s.current = next
}

// Abort cuts the run (called by a task whose body panicked).
//
//go:norace
func (s *Sched) Abort() { s.abortAll() }

// Aborted reports whether the run was cut (deadlock or step bound).
//
//go:norace
func (s *Sched) Aborted() bool { return s.abort }

// Current returns the running task id (for the watchdog's report).
//
//go:norace
func (s *Sched) Current() int { return s.current }

// Run starts one goroutine per task body, lets the schedule decide who runs,
// and returns when all have finished or the run was aborted. Every body runs
// in its own real goroutine; creation and the final WaitGroup join are the
// only synchronisation the simulator adds.
func (s *Sched) Run(bodies []func()) {
	s.wg.Add(len(bodies))
	for i := range bodies {
		id, body := i, bodies[i]
		go func() {
			defer s.leave(id)
			s.setGoid(id)
			s.wait(id) // pure wait: takes no decision before first scheduled
			body()
			s.finish(id)
		}()
	}
	s.start()
	s.wg.Wait()
}

//go:norace
func (s *Sched) setGoid(id int) { s.goid[id] = curGoid(); s.gptr[id] = getg() }

// leave releases the join for a task, unless the join was already released
// on its behalf (abandoned while blocked inside the runtime).
func (s *Sched) leave(id int) {
	if !s.isAbandoned(id) {
		s.wg.Done()
	}
}

//go:norace
func (s *Sched) isAbandoned(id int) bool { return s.abandoned[id] }

// Abandoned counts tasks left blocked inside the runtime.
//
//go:norace
func (s *Sched) Abandoned() int {
	n := 0
	for _, a := range s.abandoned {
		if a {
			n++
		}
	}
	return n
}

//go:norace
func (s *Sched) start() {
	first := s.pick(none)
	if first == none {
		s.abort = true
		return
	}
	s.note(none, 0, first)
	s.current = first
}
