#include "textflag.h"

// func getg() uintptr
// The address of the running goroutine's g: a cheap goroutine identity
// (used only to tell the simulator's task goroutines from goroutines the
// code under test may spawn itself, and to recognise a task that the runtime
// has just released).
TEXT ·getg(SB),NOSPLIT,$0-8
	MOVQ (TLS), AX
	MOVQ AX, ret+0(FP)
	RET
