//go:build amd64

package sched

func getg() uintptr
