package model

import (
	"encoding/hex"
	"fmt"
)

// SelfTestBloom checks the BIP37 model against published vectors
// (MurmurHash3 reference vectors; Bitcoin Core's hash_tests and
// bloom_tests), so that a wrong model fails loudly before any run.
func SelfTestBloom() error {
	type mv struct {
		seed uint32
		data string
		want uint32
	}
	for _, v := range []mv{
		{0, "", 0}, {1, "", 0x514E28B7}, {0xffffffff, "", 0x81F16F39},
		{0, "ffffffff", 0x76293B50}, {0, "21436587", 0xF55B516B}, {0x5082EDEE, "21436587", 0x2362F9DE},
		{0, "214365", 0x7E4A8634}, {0, "2143", 0xA0F7B07A}, {0, "21", 0x72661CF4},
		{0, "00000000", 0x2362F9DE}, {0, "000000", 0x85F0B427}, {0, "0000", 0x30F4C306}, {0, "00", 0x514E28B7},
		// Bitcoin Core hash_tests
		{0xfba4c795, "", 0x6a396f08}, {0xfba4c795, "00", 0xea3f0b17}, {0, "ff", 0xfd6cf10d},
		{0, "0011", 0x16c6b7ab}, {0, "001122", 0x8eb51c3d}, {0, "00112233", 0xb4471bf8},
		{0, "0011223344", 0xe2301fa8}, {0, "001122334455", 0xfc2e4a15}, {0, "00112233445566", 0xb074502c},
		{0, "0011223344556677", 0x8034d2a0}, {0, "001122334455667788", 0xb4698def},
	} {
		d, _ := hex.DecodeString(v.data)
		if got := Murmur3(v.seed, d); got != v.want {
			return fmt.Errorf("model Murmur3(%#x,%s) = %#x, published %#x", v.seed, v.data, got, v.want)
		}
	}
	// Bitcoin Core bloom_create_insert_serialize (3 bytes, 5 hash functions)
	for _, c := range []struct {
		tweak uint32
		want  string
	}{{0, "614e9b"}, {2147483649, "ce4299"}} {
		m := NewBloomMsg(3, 5, c.tweak, UpdateAll)
		for _, s := range []string{"99108ad8ed9bb6274d3980bab5a85c048f0950c8", "b5a2c786d9ef4658287ced5914b37a1b4aa32eee", "b9300670b4c5366e95b2699e8b18bc75e5f729c5"} {
			d, _ := hex.DecodeString(s)
			m.Insert(d)
			if !m.Contains(d) {
				return fmt.Errorf("model filter misses an inserted item")
			}
		}
		if hex.EncodeToString(m.Bits) != c.want {
			return fmt.Errorf("model filter bits %x, Bitcoin Core vector %s", m.Bits, c.want)
		}
		d, _ := hex.DecodeString("19108ad8ed9bb6274d3980bab5a85c048f0950c8")
		if m.Contains(d) {
			return fmt.Errorf("model filter reports Core's negative example present")
		}
	}
	return nil
}
