package model

import (
	"bytes"
	"crypto/hmac"
	"crypto/sha256"
	"crypto/sha512"
	"encoding/binary"
	"encoding/hex"
	"errors"
	"fmt"
	"math/big"

	"github.com/gcash/bchd/bchec"
	"golang.org/x/crypto/ripemd160"
)

// XKey is the reference model of a BIP32 extended key: a plain value with no
// shared buffers and no cache. Curve arithmetic (bchec) and the hash
// functions are trusted dependencies; everything else is written from BIP32.
type XKey struct {
	Version   [4]byte
	Depth     uint8
	ParentFP  [4]byte
	ChildNum  uint32
	ChainCode [32]byte
	Key       []byte // 32-byte scalar (private) or 33-byte compressed point
	Private   bool
}

var curveN = bchec.S256().N

// Errors of the model (the real library's error identities are not compared,
// only failure vs success).
var (
	ErrModelHardenedFromPublic = errors.New("model: hardened child of public key")
	ErrModelDepth              = errors.New("model: depth overflow")
	ErrModelInvalid            = errors.New("model: invalid child")
)

func ser32(i uint32) []byte {
	var b [4]byte
	binary.BigEndian.PutUint32(b[:], i)
	return b[:]
}

func pointOf(scalar []byte) []byte {
	x, y := bchec.S256().ScalarBaseMult(scalar)
	return compress(x, y)
}

func compress(x, y *big.Int) []byte {
	out := make([]byte, 33)
	out[0] = 2 + byte(y.Bit(0))
	xb := x.Bytes()
	copy(out[33-len(xb):], xb)
	return out
}

func hash160(b []byte) []byte {
	s := sha256.Sum256(b)
	r := ripemd160.New()
	r.Write(s[:])
	return r.Sum(nil)
}

// Hash160 is exported for address comparisons.
func Hash160(b []byte) []byte { return hash160(b) }

// Master is BIP32 master key generation.
func Master(seed []byte, privVersion [4]byte) (*XKey, error) {
	if len(seed) < 16 || len(seed) > 64 {
		return nil, fmt.Errorf("model: seed length")
	}
	m := hmac.New(sha512.New, []byte("Bitcoin seed"))
	m.Write(seed)
	I := m.Sum(nil)
	il := new(big.Int).SetBytes(I[:32])
	if il.Sign() == 0 || il.Cmp(curveN) >= 0 {
		return nil, ErrModelInvalid
	}
	k := &XKey{Version: privVersion, Private: true, Key: append([]byte(nil), I[:32]...)}
	copy(k.ChainCode[:], I[32:])
	return k, nil
}

// PubKey returns serP(K) for either kind of key.
func (k *XKey) PubKey() []byte {
	if k.Private {
		return pointOf(k.Key)
	}
	return append([]byte(nil), k.Key...)
}

// Fingerprint is the first four bytes of HASH160(serP(K)).
func (k *XKey) Fingerprint() [4]byte {
	var fp [4]byte
	copy(fp[:], hash160(k.PubKey())[:4])
	return fp
}

// Child is CKDpriv / CKDpub.
func (k *XKey) Child(i uint32) (*XKey, error) {
	if k.Depth == 255 {
		return nil, ErrModelDepth
	}
	hardened := i >= 1<<31
	if hardened && !k.Private {
		return nil, ErrModelHardenedFromPublic
	}
	var data []byte
	if hardened {
		data = append([]byte{0}, leftPad(k.Key, 32)...)
	} else {
		data = k.PubKey()
	}
	data = append(data, ser32(i)...)
	m := hmac.New(sha512.New, k.ChainCode[:])
	m.Write(data)
	I := m.Sum(nil)
	il := new(big.Int).SetBytes(I[:32])
	if il.Cmp(curveN) >= 0 || il.Sign() == 0 {
		return nil, ErrModelInvalid
	}
	c := &XKey{Version: k.Version, Depth: k.Depth + 1, ParentFP: k.Fingerprint(), ChildNum: i, Private: k.Private}
	copy(c.ChainCode[:], I[32:])
	if k.Private {
		s := new(big.Int).Add(il, new(big.Int).SetBytes(k.Key))
		s.Mod(s, curveN)
		if s.Sign() == 0 {
			return nil, ErrModelInvalid
		}
		c.Key = leftPad(s.Bytes(), 32)
	} else {
		ix, iy := bchec.S256().ScalarBaseMult(I[:32])
		pk, err := bchec.ParsePubKey(k.Key, bchec.S256())
		if err != nil {
			return nil, err
		}
		x, y := bchec.S256().Add(ix, iy, pk.X, pk.Y)
		if x.Sign() == 0 && y.Sign() == 0 {
			return nil, ErrModelInvalid
		}
		c.Key = compress(x, y)
	}
	return c, nil
}

func leftPad(b []byte, n int) []byte {
	if len(b) >= n {
		return append([]byte(nil), b...)
	}
	out := make([]byte, n)
	copy(out[n-len(b):], b)
	return out
}

// Neuter is N((k,c)) -> (K,c) with the public version bytes supplied by the
// caller (the network registry is data, not logic).
func (k *XKey) Neuter(pubVersion [4]byte) *XKey {
	c := *k
	c.Key = k.PubKey()
	c.Private = false
	c.Version = pubVersion
	return &c
}

// Clone copies the value.
func (k *XKey) Clone() *XKey {
	c := *k
	c.Key = append([]byte(nil), k.Key...)
	return &c
}

// Serialize is the 78-byte BIP32 payload.
func (k *XKey) Serialize() []byte {
	var b bytes.Buffer
	b.Write(k.Version[:])
	b.WriteByte(k.Depth)
	b.Write(k.ParentFP[:])
	b.Write(ser32(k.ChildNum))
	b.Write(k.ChainCode[:])
	if k.Private {
		b.WriteByte(0)
		b.Write(leftPad(k.Key, 32))
	} else {
		b.Write(k.Key)
	}
	return b.Bytes()
}

// String is Base58Check(payload) with the 4-byte double-SHA256 checksum.
func (k *XKey) String() string {
	p := k.Serialize()
	h1 := sha256.Sum256(p)
	h2 := sha256.Sum256(h1[:])
	return Base58(append(p, h2[:4]...))
}

const b58 = "123456789ABCDEFGHJKLMNPQRSTUVWXYZabcdefghijkmnopqrstuvwxyz"

// Base58 is the Bitcoin base58 encoding (model's own implementation).
func Base58(b []byte) string {
	x := new(big.Int).SetBytes(b)
	var out []byte
	mod := new(big.Int)
	r := big.NewInt(58)
	for x.Sign() > 0 {
		x.DivMod(x, r, mod)
		out = append(out, b58[mod.Int64()])
	}
	for _, c := range b {
		if c != 0 {
			break
		}
		out = append(out, '1')
	}
	for i, j := 0, len(out)-1; i < j; i, j = i+1, j-1 {
		out[i], out[j] = out[j], out[i]
	}
	return string(out)
}

// SelfTestBIP32 checks the model against the BIP32 test vectors 1 and 2.
func SelfTestBIP32() error {
	xprv := [4]byte{0x04, 0x88, 0xad, 0xe4}
	xpub := [4]byte{0x04, 0x88, 0xb2, 0x1e}
	H := uint32(1 << 31)
	type step struct {
		i         uint32
		priv, pub string
	}
	vecs := []struct {
		seed  string
		steps []step
	}{
		{"000102030405060708090a0b0c0d0e0f", []step{
			{0, "xprv9s21ZrQH143K3QTDL4LXw2F7HEK3wJUD2nW2nRk4stbPy6cq3jPPqjiChkVvvNKmPGJxWUtg6LnF5kejMRNNU3TGtRBeJgk33yuGBxrMPHi", "xpub661MyMwAqRbcFtXgS5sYJABqqG9YLmC4Q1Rdap9gSE8NqtwybGhePY2gZ29ESFjqJoCu1Rupje8YtGqsefD265TMg7usUDFdp6W1EGMcet8"},
			{H, "xprv9uHRZZhk6KAJC1avXpDAp4MDc3sQKNxDiPvvkX8Br5ngLNv1TxvUxt4cV1rGL5hj6KCesnDYUhd7oWgT11eZG7XnxHrnYeSvkzY7d2bhkJ7", "xpub68Gmy5EdvgibQVfPdqkBBCHxA5htiqg55crXYuXoQRKfDBFA1WEjWgP6LHhwBZeNK1VTsfTFUHCdrfp1bgwQ9xv5ski8PX9rL2dZXvgGDnw"},
			{1, "xprv9wTYmMFdV23N2TdNG573QoEsfRrWKQgWeibmLntzniatZvR9BmLnvSxqu53Kw1UmYPxLgboyZQaXwTCg8MSY3H2EU4pWcQDnRnrVA1xe8fs", "xpub6ASuArnXKPbfEwhqN6e3mwBcDTgzisQN1wXN9BJcM47sSikHjJf3UFHKkNAWbWMiGj7Wf5uMash7SyYq527Hqck2AxYysAA7xmALppuCkwQ"},
			{H + 2, "xprv9z4pot5VBttmtdRTWfWQmoH1taj2axGVzFqSb8C9xaxKymcFzXBDptWmT7FwuEzG3ryjH4ktypQSAewRiNMjANTtpgP4mLTj34bhnZX7UiM", "xpub6D4BDPcP2GT577Vvch3R8wDkScZWzQzMMUm3PWbmWvVJrZwQY4VUNgqFJPMM3No2dFDFGTsxxpG5uJh7n7epu4trkrX7x7DogT5Uv6fcLW5"},
			{2, "xprvA2JDeKCSNNZky6uBCviVfJSKyQ1mDYahRjijr5idH2WwLsEd4Hsb2Tyh8RfQMuPh7f7RtyzTtdrbdqqsunu5Mm3wDvUAKRHSC34sJ7in334", "xpub6FHa3pjLCk84BayeJxFW2SP4XRrFd1JYnxeLeU8EqN3vDfZmbqBqaGJAyiLjTAwm6ZLRQUMv1ZACTj37sR62cfN7fe5JnJ7dh8zL4fiyLHV"},
			{1000000000, "xprvA41z7zogVVwxVSgdKUHDy1SKmdb533PjDz7J6N6mV6uS3ze1ai8FHa8kmHScGpWmj4WggLyQjgPie1rFSruoUihUZREPSL39UNdE3BBDu76", "xpub6H1LXWLaKsWFhvm6RVpEL9P4KfRZSW7abD2ttkWP3SSQvnyA8FSVqNTEcYFgJS2UaFcxupHiYkro49S8yGasTvXEYBVPamhGW6cFJodrTHy"},
		}},
		{"fffcf9f6f3f0edeae7e4e1dedbd8d5d2cfccc9c6c3c0bdbab7b4b1aeaba8a5a29f9c999693908d8a8784817e7b7875726f6c696663605d5a5754514e4b484542", []step{
			{0, "xprv9s21ZrQH143K31xYSDQpPDxsXRTUcvj2iNHm5NUtrGiGG5e2DtALGdso3pGz6ssrdK4PFmM8NSpSBHNqPqm55Qn3LqFtT2emdEXVYsCzC2U", "xpub661MyMwAqRbcFW31YEwpkMuc5THy2PSt5bDMsktWQcFF8syAmRUapSCGu8ED9W6oDMSgv6Zz8idoc4a6mr8BDzTJY47LJhkJ8UB7WEGuduB"},
			{0, "xprv9vHkqa6EV4sPZHYqZznhT2NPtPCjKuDKGY38FBWLvgaDx45zo9WQRUT3dKYnjwih2yJD9mkrocEZXo1ex8G81dwSM1fwqWpWkeS3v86pgKt", "xpub69H7F5d8KSRgmmdJg2KhpAK8SR3DjMwAdkxj3ZuxV27CprR9LgpeyGmXUbC6wb7ERfvrnKZjXoUmmDznezpbZb7ap6r1D3tgFxHmwMkQTPH"},
			{H + 2147483647, "xprv9wSp6B7kry3Vj9m1zSnLvN3xH8RdsPP1Mh7fAaR7aRLcQMKTR2vidYEeEg2mUCTAwCd6vnxVrcjfy2kRgVsFawNzmjuHc2YmYRmagcEPdU9", "xpub6ASAVgeehLbnwdqV6UKMHVzgqAG8Gr6riv3Fxxpj8ksbH9ebxaEyBLZ85ySDhKiLDBrQSARLq1uNRts8RuJiHjaDMBU4Zn9h8LZNnBC5y4a"},
			{1, "xprv9zFnWC6h2cLgpmSA46vutJzBcfJ8yaJGg8cX1e5StJh45BBciYTRXSd25UEPVuesF9yog62tGAQtHjXajPPdbRCHuWS6T8XA2ECKADdw4Ef", "xpub6DF8uhdarytz3FWdA8TvFSvvAh8dP3283MY7p2V4SeE2wyWmG5mg5EwVvmdMVCQcoNJxGoWaU9DCWh89LojfZ537wTfunKau47EL2dhHKon"},
		}},
	}
	for vi, v := range vecs {
		seed, _ := hex.DecodeString(v.seed)
		k, err := Master(seed, xprv)
		if err != nil {
			return err
		}
		var pubParent *XKey
		for si, st := range v.steps {
			if si > 0 {
				prevPub := k.Neuter(xpub)
				k, err = k.Child(st.i)
				if err != nil {
					return fmt.Errorf("model BIP32 vector %d step %d: %v", vi+1, si, err)
				}
				pubParent = prevPub
			}
			if got := k.String(); got != st.priv {
				return fmt.Errorf("model BIP32 vector %d step %d: private %s, published %s", vi+1, si, got, st.priv)
			}
			if got := k.Neuter(xpub).String(); got != st.pub {
				return fmt.Errorf("model BIP32 vector %d step %d: public %s, published %s", vi+1, si, got, st.pub)
			}
			if si > 0 && st.i < H {
				pc, err := pubParent.Child(st.i)
				if err != nil || pc.String() != st.pub {
					return fmt.Errorf("model BIP32 vector %d step %d: public derivation disagrees", vi+1, si)
				}
			}
		}
	}
	return nil
}
