// Package model holds the reference models the simulated runs are compared
// against. They are written from the specifications (BIP37, MurmurHash3,
// BIP32) and share no code with the repository under test.
package model

import (
	"encoding/binary"

	"github.com/gcash/bchd/txscript"
	"github.com/gcash/bchd/wire"
)

// Murmur3 is MurmurHash3_x86_32 as published by Austin Appleby, written in the
// "accumulate tail little-endian" form rather than the switch/fallthrough
// form, so it is not a transcription of the code under test.
func Murmur3(seed uint32, data []byte) uint32 {
	const c1, c2 = 0xcc9e2d51, 0x1b873593
	h := seed
	n := len(data)
	i := 0
	for ; i+4 <= n; i += 4 {
		k := uint32(data[i]) | uint32(data[i+1])<<8 | uint32(data[i+2])<<16 | uint32(data[i+3])<<24
		k *= c1
		k = k<<15 | k>>17
		k *= c2
		h ^= k
		h = h<<13 | h>>19
		h = h*5 + 0xe6546b64
	}
	if i < n {
		var k uint32
		for j := n - 1; j >= i; j-- {
			k = k<<8 | uint32(data[j])
		}
		k *= c1
		k = k<<15 | k>>17
		k *= c2
		h ^= k
	}
	h ^= uint32(n)
	h ^= h >> 16
	h *= 0x85ebca6b
	h ^= h >> 13
	h *= 0xc2b2ae35
	h ^= h >> 16
	return h
}

// Update flags of BIP37.
const (
	UpdateNone         = 0
	UpdateAll          = 1
	UpdateP2PubkeyOnly = 2
)

// BloomMsg models one filterload message object: the bit array and its
// parameters. Several filters / reloads may refer to the same object.
type BloomMsg struct {
	Bits      []byte
	HashFuncs uint32
	Tweak     uint32
	Flags     uint8
}

// NewBloomMsg makes an all-zero message of n bytes.
func NewBloomMsg(n int, hashFuncs, tweak uint32, flags uint8) *BloomMsg {
	return &BloomMsg{Bits: make([]byte, n), HashFuncs: hashFuncs, Tweak: tweak, Flags: flags}
}

// Clone copies the message.
func (m *BloomMsg) Clone() *BloomMsg {
	c := *m
	c.Bits = append([]byte(nil), m.Bits...)
	return &c
}

// BitIndex is BIP37's bit number of item under hash function i.
func (m *BloomMsg) BitIndex(i uint32, item []byte) uint32 {
	seed := i*0xFBA4C795 + m.Tweak
	return Murmur3(seed, item) % (uint32(len(m.Bits)) * 8)
}

// Insert sets the item's bits.
func (m *BloomMsg) Insert(item []byte) {
	for i := uint32(0); i < m.HashFuncs; i++ {
		b := m.BitIndex(i, item)
		m.Bits[b/8] |= 1 << (b % 8)
	}
}

// Contains tests the item's bits.
func (m *BloomMsg) Contains(item []byte) bool {
	for i := uint32(0); i < m.HashFuncs; i++ {
		b := m.BitIndex(i, item)
		if m.Bits[b/8]&(1<<(b%8)) == 0 {
			return false
		}
	}
	return true
}

// OutPointBytes is BIP37's serialisation: txid followed by LE32 index.
func OutPointBytes(hash [32]byte, index uint32) []byte {
	b := make([]byte, 36)
	copy(b, hash[:])
	binary.LittleEndian.PutUint32(b[32:], index)
	return b
}

// Bloom models a filter handle: the message currently loaded, or none.
type Bloom struct {
	Cur *BloomMsg
}

// Add inserts when loaded; an unloaded filter ignores insertions.
func (b *Bloom) Add(item []byte) {
	if b.Cur != nil {
		b.Cur.Insert(item)
	}
}

// Matches is false when unloaded.
func (b *Bloom) Matches(item []byte) bool {
	return b.Cur != nil && b.Cur.Contains(item)
}

// TxView is what BIP37's relevance test looks at.
type TxView struct {
	TxID    [32]byte
	Outputs [][]byte // pkScripts
	Inputs  []TxInView
}

// TxInView is one input.
type TxInView struct {
	PrevHash  [32]byte
	PrevIndex uint32
	SigScript []byte
}

// ViewOf extracts the view from a wire transaction (wire is a trusted
// dependency: it only serialises and hashes).
func ViewOf(tx *wire.MsgTx) *TxView {
	v := &TxView{TxID: tx.TxHash()}
	for _, o := range tx.TxOut {
		v.Outputs = append(v.Outputs, o.PkScript)
	}
	for _, in := range tx.TxIn {
		v.Inputs = append(v.Inputs, TxInView{PrevHash: in.PreviousOutPoint.Hash, PrevIndex: in.PreviousOutPoint.Index, SigScript: in.SignatureScript})
	}
	return v
}

// Pushes returns the data pushes of a script, or ok=false when the script
// does not parse (BIP37 implementations then skip the script).
func Pushes(script []byte) ([][]byte, bool) {
	d, err := txscript.PushedData(script)
	if err != nil {
		return nil, false
	}
	return d, true
}

// IsPubkeyOrMultisig classifies an output script for the P2PubkeyOnly flag.
func IsPubkeyOrMultisig(script []byte) bool {
	c := txscript.GetScriptClass(script)
	return c == txscript.PubKeyTy || c == txscript.MultiSigTy
}

// MatchAndUpdate is BIP37's IsRelevantAndUpdate: the transaction id; then each
// output's pushes (first matching push decides; on a match the outpoint is
// inserted as the flag prescribes); then, only if nothing matched so far,
// each input's outpoint and pushes.
func (b *Bloom) MatchAndUpdate(tx *TxView) bool {
	if b.Cur == nil {
		return false
	}
	m := b.Cur
	found := m.Contains(tx.TxID[:])
	for i, script := range tx.Outputs {
		ps, ok := Pushes(script)
		if !ok {
			continue
		}
		for _, p := range ps {
			if !m.Contains(p) {
				continue
			}
			found = true
			switch m.Flags {
			case UpdateAll:
				m.Insert(OutPointBytes(tx.TxID, uint32(i)))
			case UpdateP2PubkeyOnly:
				if IsPubkeyOrMultisig(script) {
					m.Insert(OutPointBytes(tx.TxID, uint32(i)))
				}
			}
			break
		}
	}
	if found {
		return true
	}
	for _, in := range tx.Inputs {
		if m.Contains(OutPointBytes(in.PrevHash, in.PrevIndex)) {
			return true
		}
		ps, ok := Pushes(in.SigScript)
		if !ok {
			continue
		}
		for _, p := range ps {
			if m.Contains(p) {
				return true
			}
		}
	}
	return false
}
