// instrument inserts a simulation point before every statement of the given
// Go files (a scratch copy of the packages under test, never /repo itself),
// so that the seeded scheduler can preempt a task between any two statements
// and not only at the hand-placed hooks. The call is inserted on the same
// line as the statement it precedes, so line numbers in stack traces and race
// reports still match the original source.
//
// usage: instrument <call-text> file.go...   e.g. instrument 'simPoint(20, nil); ' bloom/filter.go
package main

import (
	"fmt"
	"go/ast"
	"go/parser"
	"go/token"
	"os"
	"sort"
)

func main() {
	if len(os.Args) < 3 {
		fmt.Fprintln(os.Stderr, "usage: instrument <call-text> file.go...")
		os.Exit(2)
	}
	call := os.Args[1]
	total := 0
	for _, path := range os.Args[2:] {
		src, err := os.ReadFile(path)
		if err != nil {
			fmt.Fprintln(os.Stderr, err)
			os.Exit(2)
		}
		fset := token.NewFileSet()
		f, err := parser.ParseFile(fset, path, src, parser.ParseComments)
		if err != nil {
			fmt.Fprintln(os.Stderr, err)
			os.Exit(2)
		}
		var offsets []int
		ends := map[int]bool{} // offsets of closing braces (need a separating semicolon)
		isHook := func(st ast.Stmt) bool {
			if e, ok := st.(*ast.ExprStmt); ok {
				if c, ok := e.X.(*ast.CallExpr); ok {
					if id, ok := c.Fun.(*ast.Ident); ok && id.Name == "simPoint" {
						return true
					}
				}
			}
			return false
		}
		addList := func(list []ast.Stmt) {
			for i, st := range list {
				switch st.(type) {
				case *ast.CaseClause, *ast.CommClause:
					continue
				}
				// no point in front of an existing hook, and none between a
				// hook and the statement it annotates (the before-Lock gate
				// relies on the Lock following it immediately)
				if isHook(st) || (i > 0 && isHook(list[i-1])) {
					continue
				}
				offsets = append(offsets, fset.Position(st.Pos()).Offset)
			}
		}
		// a point at the END of every function body without results (named
		// functions and literals): between the last statement - typically an
		// Unlock - and the deferred calls that run on return
		endOf := func(ft *ast.FuncType, body *ast.BlockStmt) {
			if body == nil || (ft.Results != nil && len(ft.Results.List) > 0) {
				return
			}
			if n := len(body.List); n > 0 {
				if _, ok := body.List[n-1].(*ast.ReturnStmt); ok {
					return
				}
				if isHook(body.List[n-1]) {
					return
				}
			}
			ends[fset.Position(body.Rbrace).Offset] = true
			offsets = append(offsets, fset.Position(body.Rbrace).Offset)
		}
		for _, d := range f.Decls {
			fd, ok := d.(*ast.FuncDecl)
			if !ok || fd.Body == nil || fd.Name.Name == "simPoint" || fd.Name.Name == "simPointAuto" {
				continue
			}
			endOf(fd.Type, fd.Body)
			ast.Inspect(fd.Body, func(n ast.Node) bool {
				if fl, ok := n.(*ast.FuncLit); ok {
					endOf(fl.Type, fl.Body)
				}
				switch b := n.(type) {
				case *ast.BlockStmt:
					addList(b.List)
				case *ast.CaseClause:
					addList(b.Body)
				case *ast.CommClause:
					addList(b.Body)
				}
				return true
			})
		}
		sort.Sort(sort.Reverse(sort.IntSlice(offsets)))
		out := src
		last := -1
		for _, off := range offsets {
			if off == last {
				continue
			}
			last = off
			text := call
			if ends[off] {
				text = "; " + call
			}
			out = append(out[:off:off], append([]byte(text), out[off:]...)...)
			total++
		}
		if err := os.WriteFile(path, out, 0o644); err != nil {
			fmt.Fprintln(os.Stderr, err)
			os.Exit(2)
		}
	}
	fmt.Printf("instrument: %d simulation points inserted\n", total)
}
