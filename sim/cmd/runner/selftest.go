package main

import (
	"flag"
	"fmt"
	"os"

	"verif/sim/props"
)

func cmdSelftest(args []string) int {
	fs := flag.NewFlagSet("selftest", flag.ExitOnError)
	prop := fs.String("prop", "", "property id, or empty for all")
	_ = fs.Parse(args)
	for _, t := range props.SelfTests {
		if *prop != "" && !t.For[*prop] {
			continue
		}
		if err := t.Run(); err != nil {
			fmt.Fprintf(os.Stderr, "self-test %s: %v\n", t.Name, err)
			return 1
		}
	}
	return 0
}
