// runner is the single binary behind every check: orchestrator (`check`),
// worker (`work`), single replay (`replay`) and in-process minimiser
// (`minimise`). It is built twice from /repo's working tree: plain
// (-tags verif) and race-instrumented (-race -tags verif).
package main

import (
	"encoding/binary"
	"encoding/json"
	"flag"
	"fmt"
	"os"
	"runtime"
	"runtime/debug"
	"runtime/pprof"
	"sort"
	"strconv"
	"strings"
	"time"

	"verif/sim/kit"
	"verif/sim/props"
)

func main() {
	if len(os.Args) >= 2 && (os.Args[1] == "work" || os.Args[1] == "replay" || os.Args[1] == "minimise") {
		// one P: per-P runtime structures the library can observe (sync.Pool
		// shards) then behave the same in every process; and no collection
		// inside a run (workers collect only between runs, at fixed points)
		runtime.GOMAXPROCS(1)
		// a few workers present another P count to the library (code that
		// sizes things by GOMAXPROCS); the simulator's own logic does not
		// depend on it
		if n, err := strconv.Atoi(os.Getenv("VERIF_PROCS")); err == nil && n >= 1 && n <= 8 {
			runtime.GOMAXPROCS(n)
		}
		debug.SetGCPercent(-1)
		debug.SetMemoryLimit(3 << 30)
	}
	if len(os.Args) < 2 {
		fmt.Fprintln(os.Stderr, "usage: runner check|work|replay|minimise|selftest ...")
		os.Exit(2)
	}
	switch os.Args[1] {
	case "check":
		os.Exit(cmdCheck(os.Args[2:]))
	case "work":
		os.Exit(cmdWork(os.Args[2:]))
	case "replay":
		os.Exit(cmdReplay(os.Args[2:]))
	case "minimise":
		os.Exit(cmdMinimise(os.Args[2:]))
	case "lincheck":
		os.Exit(props.LinCheckMain())
	case "selftest":
		os.Exit(cmdSelftest(os.Args[2:]))
	default:
		fmt.Fprintln(os.Stderr, "unknown command", os.Args[1])
		os.Exit(2)
	}
}

// gcEvery: the collector runs before every gcEvery-th run of a worker.
const gcEvery = 64

func knownSet(s string) map[string]bool {
	m := map[string]bool{}
	for _, k := range strings.Split(s, "\x1f") {
		if k != "" {
			m[k] = true
		}
	}
	return m
}

func engineFor(id string, known map[string]bool) kit.Engine {
	e, ok := props.Registry[id]
	if !ok {
		fmt.Fprintf(os.Stderr, "no engine for property %q\n", id)
		os.Exit(2)
	}
	return e.New(known)
}

// WorkerResult is what one worker process reports.
type WorkerResult struct {
	Property string                 `json:"property"`
	Seed     uint64                 `json:"seed"`
	First    int64                  `json:"first_index"`
	Last     int64                  `json:"last_index"`
	Executed int64                  `json:"executed"`
	Stats    *kit.Stats             `json:"stats"`
	Sigs     []uint64               `json:"sigs"`
	SigShift uint                   `json:"sig_shift"`
	LogHash  uint64                 `json:"log_hash"`
	Failure  *kit.Trace             `json:"failure,omitempty"`
	FailN    int64                  `json:"fail_n"`
	Arch     string                 `json:"goarch"`
	Procs    int                    `json:"gomaxprocs"`
	Stride   int64                  `json:"stride"`
	Known    map[string]*KnownHit   `json:"known,omitempty"`
	Samples  []*kit.Trace           `json:"samples,omitempty"`
	WallS    float64                `json:"wall_s"`
	Extra    map[string]interface{} `json:"extra,omitempty"`
}

// KnownHit counts occurrences of a listed known finding.
type KnownHit struct {
	Count  int64         `json:"count"`
	Sample *kit.Trace    `json:"sample"`
	Viol   kit.Violation `json:"violation"`
}

func cmdWork(args []string) int {
	fs := flag.NewFlagSet("work", flag.ExitOnError)
	prop := fs.String("prop", "", "")
	seed := fs.Uint64("seed", 1, "")
	start := fs.Int64("start", 0, "")
	stride := fs.Int64("stride", 1, "")
	count := fs.Int64("count", 1000, "")
	deadline := fs.Int64("deadline", 0, "unix seconds; 0 = none")
	out := fs.String("out", "", "")
	known := fs.String("known", "", "")
	nsamples := fs.Int("samples", 3, "")
	prof := fs.String("cpuprofile", "", "")
	marker := fs.String("marker", "", "file that always holds the index of the run in progress")
	_ = fs.Parse(args)
	if *prof != "" {
		pf, _ := os.Create(*prof)
		_ = pprof.StartCPUProfile(pf)
		defer pprof.StopCPUProfile()
	}
	if d, err := strconv.Atoi(os.Getenv("VERIF_DEPTH")); err == nil && d >= 1 && d <= 10 {
		kit.Depth = d
	}
	eng := engineFor(*prop, knownSet(*known))
	if pre, ok := eng.(interface{ Prepare() error }); ok {
		if err := pre.Prepare(); err != nil {
			fmt.Fprintln(os.Stderr, "prepare:", err)
			return 2
		}
	}
	st := kit.NewStats()
	res := &WorkerResult{Property: *prop, Seed: *seed, First: *start, Stride: *stride, Arch: runtime.GOARCH, Procs: runtime.GOMAXPROCS(0), Known: map[string]*KnownHit{}}
	t0 := time.Now()
	sigs := map[uint64]struct{}{}
	shift := uint(0)
	logh := kit.NewHash()
	idx := *start
	var mf *os.File
	if *marker != "" {
		mf, _ = os.Create(*marker)
	}
	// Garbage collection is a source of nondeterminism the library can see
	// (sync.Pool contents, finalizers): it goes behind the simulator too.
	// The collector only runs at fixed points of the worker's run sequence
	// (a memory limit stays as a safety net), so a replay of a suffix of the
	// sequence meets the same pool states.
	debug.SetGCPercent(-1)
	debug.SetMemoryLimit(3 << 30)
	for n := int64(0); n < *count; n++ {
		if n%gcEvery == 0 {
			runtime.GC()
		}
		if mf != nil {
			var b [8]byte
			binary.LittleEndian.PutUint64(b[:], uint64(idx))
			_, _ = mf.WriteAt(b[:], 0)
		}
		if *deadline > 0 && n&7 == 0 && time.Now().Unix() >= *deadline {
			break
		}
		rs := kit.Mix(*seed, uint64(idx))
		tRun := time.Now()
		o := eng.Run(rs, st)
		if d := time.Since(tRun); d > 3*time.Second {
			fmt.Fprintf(os.Stderr, "note: run %d (seed %d) took %.1fs, %d steps\n", idx, rs, d.Seconds(), o.Steps)
		}
		res.Executed++
		res.Last = idx
		logh = logh.Int(int64(o.Sig)).Int(int64(o.Steps))
		if o.Viol != nil {
			logh = logh.Str(o.Viol.Class)
		}
		for _, k := range o.Known {
			h := res.Known[k.Key]
			if h == nil {
				h = &KnownHit{Sample: o.Trace, Viol: k}
				res.Known[k.Key] = h
			}
			h.Count++
		}
		if o.NonTrivial {
			if shift == 0 || o.Sig&((1<<shift)-1) == 0 {
				sigs[o.Sig] = struct{}{}
				if len(sigs) > 1<<20 {
					shift++
					for s := range sigs {
						if s&((1<<shift)-1) != 0 {
							delete(sigs, s)
						}
					}
				}
			}
			if len(res.Samples) < *nsamples && o.Viol == nil {
				res.Samples = append(res.Samples, o.Trace)
			}
		}
		if o.Viol != nil {
			res.Failure = o.Trace
			res.FailN = n
			break
		}
		idx += *stride
	}
	if fin, ok := eng.(interface {
		Finish(*kit.Stats) (*kit.Trace, error)
	}); ok {
		ft, err := fin.Finish(st)
		if err != nil {
			fmt.Fprintln(os.Stderr, err)
			return 2
		}
		if ft != nil && res.Failure == nil {
			res.Failure = ft
		}
	}
	res.Stats = st
	res.SigShift = shift
	for s := range sigs {
		res.Sigs = append(res.Sigs, s)
	}
	sort.Slice(res.Sigs, func(i, j int) bool { return res.Sigs[i] < res.Sigs[j] })
	res.LogHash = uint64(logh)
	res.WallS = time.Since(t0).Seconds()
	if x, ok := eng.(interface{ Extra() map[string]interface{} }); ok {
		res.Extra = x.Extra()
	}
	b, _ := json.Marshal(res)
	if *out == "" {
		os.Stdout.Write(b)
	} else if err := os.WriteFile(*out, b, 0o644); err != nil {
		fmt.Fprintln(os.Stderr, err)
		return 2
	}
	return 0
}

// ReplayResult is printed by `replay`.
type ReplayResult struct {
	Viol  *kit.Violation  `json:"violation"`
	Known []kit.Violation `json:"known,omitempty"`
	Steps int             `json:"steps"`
	Sig   uint64          `json:"sig"`
	Trace *kit.Trace      `json:"trace,omitempty"`
}

func cmdReplay(args []string) int {
	fs := flag.NewFlagSet("replay", flag.ExitOnError)
	prop := fs.String("prop", "", "")
	file := fs.String("file", "", "")
	known := fs.String("known", "", "")
	withTrace := fs.Bool("trace", false, "")
	quiet := fs.Bool("json", false, "")
	_ = fs.Parse(args)
	t, err := kit.ReadTrace(*file)
	if err != nil {
		fmt.Fprintln(os.Stderr, err)
		return 2
	}
	if *prop == "" {
		*prop = t.Property
	}
	os.Setenv("VERIF_LIN_INPROC", "1")
	eng := engineFor(*prop, knownSet(*known))
	if pre, ok := eng.(interface{ Prepare() error }); ok {
		if err := pre.Prepare(); err != nil {
			fmt.Fprintln(os.Stderr, "prepare:", err)
			return 2
		}
	}
	var o *kit.Outcome
	if t.Kind == "regenerate-sequence" {
		// the violation depends on state the library keeps across runs in one
		// process (package-level caches, pools): re-draw the worker's runs
		// from..to in this fresh process
		st := kit.NewStats()
		debug.SetGCPercent(-1)
		debug.SetMemoryLimit(3 << 30)
		for n := t.Cfg("from", 0); n <= t.Cfg("to", 0); n++ {
			if n%gcEvery == 0 {
				runtime.GC()
			}
			o = eng.Run(kit.Mix(t.Seed, uint64(t.Cfg("start", 0)+n*t.Cfg("stride", 1))), st)
			if o.Viol != nil {
				break
			}
		}
		if o == nil {
			o = &kit.Outcome{}
		}
		if o.Viol != nil {
			o.Viol.Detail = fmt.Sprintf("(in a process that first executed runs %d..%d of this worker sequence; the violation does not appear when the last run is executed alone, so the library carries state from one use to the next)\n", t.Cfg("from", 0), t.Cfg("to", 0)-1) + o.Viol.Detail
		}
	} else if t.Kind == "regenerate-from-seed" {
		// crash replays: the run is re-drawn from its seed (a process crash
		// leaves no recorded trace to replay)
		o = eng.Run(t.Seed, kit.NewStats())
	} else {
		o = eng.Replay(t, kit.NewStats())
	}
	rr := ReplayResult{Viol: o.Viol, Known: o.Known, Steps: o.Steps, Sig: o.Sig}
	if *withTrace {
		rr.Trace = o.Trace
	}
	b, _ := json.Marshal(rr)
	if *quiet {
		os.Stdout.Write(b)
		os.Stdout.Write([]byte("\n"))
	} else {
		if o.Viol != nil {
			fmt.Printf("replay: violation class=%s step=%d\n%s\n", o.Viol.Class, o.Viol.Step, o.Viol.Detail)
		} else if len(o.Known) > 0 {
			fmt.Printf("replay: known finding key=%s step=%d\n%s\n", o.Known[0].Key, o.Known[0].Step, o.Known[0].Detail)
		} else {
			fmt.Printf("replay: no violation (%d steps)\n", o.Steps)
		}
	}
	if o.Viol != nil {
		return 1
	}
	return 0
}

// cmdMinimise reduces a failing trace with in-process replays (engines whose
// replays do not depend on per-process state).
func cmdMinimise(args []string) int {
	fs := flag.NewFlagSet("minimise", flag.ExitOnError)
	prop := fs.String("prop", "", "")
	file := fs.String("file", "", "")
	out := fs.String("out", "", "")
	known := fs.String("known", "", "")
	budget := fs.Int("budget", 3000, "")
	_ = fs.Parse(args)
	t, err := kit.ReadTrace(*file)
	if err != nil {
		fmt.Fprintln(os.Stderr, err)
		return 2
	}
	eng := engineFor(*prop, knownSet(*known))
	if pre, ok := eng.(interface{ Prepare() error }); ok {
		if err := pre.Prepare(); err != nil {
			return 2
		}
	}
	base := eng.Replay(t, kit.NewStats())
	if base.Viol == nil {
		fmt.Fprintln(os.Stderr, "minimise: trace does not fail on replay")
		return 3
	}
	class := base.Viol.Class
	test := func(c *kit.Trace) bool {
		o := eng.Replay(c, kit.NewStats())
		return o.Viol != nil && o.Viol.Class == class
	}
	m, evals := kit.Minimise(base.Trace, test, eng.Simplify, *budget)
	fin := eng.Replay(m, kit.NewStats())
	if fin.Viol == nil || fin.Viol.Class != class {
		fmt.Fprintln(os.Stderr, "minimise: minimised trace lost the violation")
		return 3
	}
	fin.Trace.Viol = fin.Viol
	if err := fin.Trace.WriteFile(*out); err != nil {
		fmt.Fprintln(os.Stderr, err)
		return 2
	}
	fmt.Fprintf(os.Stderr, "minimise: %d -> %d elements in %d evaluations\n", base.Trace.Size(), fin.Trace.Size(), evals)
	return 0
}
