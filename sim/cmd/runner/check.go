package main

import (
	"bytes"
	"context"
	"encoding/binary"
	"encoding/json"
	"flag"
	"fmt"
	"os"
	"os/exec"
	"path/filepath"
	"runtime"
	"sort"
	"strconv"
	"strings"
	"sync"
	"time"

	"verif/sim/kit"
	"verif/sim/props"
)

// KnownFinding is one entry of /verif/known_findings.json (read-only at run
// time).
type KnownFinding struct {
	Property string `json:"property"`
	Status   string `json:"status"` // "known" | "fixed"
	Key      string `json:"key"`
	What     string `json:"what"`
	Commit   string `json:"commit,omitempty"`
	Replay   string `json:"replay,omitempty"`
}

func loadKnown(verif string) ([]KnownFinding, error) {
	b, err := os.ReadFile(filepath.Join(verif, "known_findings.json"))
	if os.IsNotExist(err) {
		return nil, nil
	}
	if err != nil {
		return nil, err
	}
	var k struct {
		Findings []KnownFinding `json:"findings"`
	}
	if err := json.Unmarshal(b, &k); err != nil {
		return nil, err
	}
	return k.Findings, nil
}

type checker struct {
	id       string
	tier     string
	seed     uint64
	verif    string
	bin      string
	binPlain string
	bin386   string // 32-bit build of the plain runner ("" if unavailable or not applicable)
	n386     int
	procsFor func(tag string) int // P count presented to the library, per worker tag
	procs    int64                // P count of the worker whose failure is being handled
	build    string
	entry    props.Entry
	desc     kit.Description
	known    []KnownFinding
	knownKs  string
	workers  int
	wallS    int
	t0       time.Time

	distinctAtFailure int
	failW             *WorkerResult // the worker whose failure is being handled
}

func envInt(name string, def int64) int64 {
	if v := os.Getenv(name); v != "" {
		if n, err := strconv.ParseInt(v, 10, 64); err == nil {
			return n
		}
	}
	return def
}

func cmdCheck(args []string) int {
	fs := flag.NewFlagSet("check", flag.ExitOnError)
	prop := fs.String("prop", "", "")
	tier := fs.String("tier", "quick", "")
	replay := fs.String("replay", "", "")
	verif := fs.String("verif", "/verif", "")
	binPlain := fs.String("bin-plain", "", "")
	binRace := fs.String("bin-race", "", "")
	bin386 := fs.String("bin-386", "", "")
	_ = fs.Parse(args)
	tierGiven := false
	fs.Visit(func(f *flag.Flag) {
		if f.Name == "tier" {
			tierGiven = true
		}
	})
	if t := os.Getenv("VERIF_TIER"); t != "" && *replay == "" && !tierGiven {
		*tier = t // the environment decides only when the command line does not
	}
	if *tier != "quick" && *tier != "thorough" {
		fmt.Fprintln(os.Stderr, "tier must be quick or thorough")
		return 2
	}
	entry, ok := props.Registry[*prop]
	if !ok {
		fmt.Fprintf(os.Stderr, "property %s is not claimed by this framework\n", *prop)
		return 2
	}
	c := &checker{id: *prop, tier: *tier, verif: *verif, entry: entry, t0: time.Now()}
	c.build = filepath.Join(*verif, ".build")
	defSeed := int64(20260901)
	if *tier == "thorough" {
		defSeed = 20260902
	}
	c.seed = uint64(envInt("VERIF_SEED", defSeed))
	var err error
	c.known, err = loadKnown(*verif)
	if err != nil {
		fmt.Fprintln(os.Stderr, "known_findings.json:", err)
		return 2
	}
	var ks []string
	for _, k := range c.known {
		if k.Property == c.id && k.Status == "known" {
			ks = append(ks, k.Key)
		}
	}
	c.knownKs = strings.Join(ks, "\x1f")
	eng := entry.New(knownSet(c.knownKs))
	c.desc = eng.Describe()
	c.bin = *binPlain
	c.binPlain = *binPlain
	if _, err := os.Stat(*bin386); err == nil && !c.desc.NeedsRace {
		// only if this machine can actually execute 32-bit binaries
		if exec.Command(*bin386, "selftest", "--prop", c.id).Run() == nil {
			c.bin386 = *bin386
		}
	}
	if c.desc.NeedsRace {
		c.bin = *binRace
	}
	c.workers = int(envInt("VERIF_WORKERS", int64(runtime.NumCPU())))
	if c.workers > 16 {
		c.workers = 16
	}
	if c.workers < 1 {
		c.workers = 1
	}
	if *replay != "" {
		return c.replayFile(*replay)
	}
	return c.run()
}

func (c *checker) raceEnv(logPrefix string) []string {
	env := os.Environ()
	if c.tier == "thorough" {
		env = append(env, "VERIF_DEPTH=3")
	}
	if c.desc.NeedsRace {
		env = append(env, "VERIF_LIN_BIN="+c.binPlain)
		env = append(env, "GORACE=halt_on_error=0 exitcode=0 log_path="+logPrefix+" history_size=2")
	}
	return env
}

// spawn runs the worker binary with args and returns stdout, stderr, exit code.
func (c *checker) spawn(tag string, args ...string) ([]byte, string, int) {
	limit := 180 * time.Second
	if len(args) > 0 && args[0] == "work" {
		limit = time.Duration(c.wallS+240) * time.Second
	}
	ctx, cancel := context.WithTimeout(context.Background(), limit)
	defer cancel()
	bin := c.bin
	if strings.HasPrefix(tag, "x86-") && c.bin386 != "" {
		bin = c.bin386
	}
	cmd := exec.CommandContext(ctx, bin, args...)
	var so, se bytes.Buffer
	cmd.Stdout, cmd.Stderr = &so, &se
	cmd.Env = append(c.raceEnv(filepath.Join(c.outDir(), "race-"+tag)), "VERIF_CRASH_FILE="+filepath.Join(c.outDir(), "crash-"+tag+".json"))
	if c.procsFor != nil {
		if n := c.procsFor(tag); n > 1 {
			cmd.Env = append(cmd.Env, fmt.Sprintf("VERIF_PROCS=%d", n))
		}
	}
	err := cmd.Run()
	code := 0
	if ctx.Err() != nil {
		return so.Bytes(), "process exceeded its time limit of " + limit.String() + " and was killed\n" + se.String(), -2
	}
	if err != nil {
		if ee, ok := err.(*exec.ExitError); ok {
			code = ee.ExitCode()
		} else {
			code = -1
			se.WriteString(err.Error())
		}
	}
	return so.Bytes(), se.String(), code
}

func (c *checker) outDir() string {
	d := filepath.Join(c.build, "out", c.id+"-"+c.tier)
	return d
}

func (c *checker) replayOnce(path string) (*ReplayResult, int, string) {
	so, se, code := c.spawn("replay", "replay", "--prop", c.id, "--file", path, "--known", c.knownKs, "--json", "--trace")
	if code != 0 && code != 1 {
		return nil, code, se
	}
	var rr ReplayResult
	if err := json.Unmarshal(bytes.TrimSpace(so), &rr); err != nil {
		return nil, 2, "bad replay output: " + err.Error() + "\n" + se
	}
	return &rr, code, se
}

func (c *checker) replayFile(path string) int {
	_ = os.MkdirAll(c.outDir(), 0o755)
	if t, err := kit.ReadTrace(path); err == nil {
		if t.Cfg("goarch_386", 0) == 1 && c.bin386 != "" {
			c.bin = c.bin386
		}
		if n := t.Cfg("gomaxprocs", 1); n > 1 {
			c.procs = n
			c.procsFor = func(string) int { return int(c.procs) }
		}
	}
	rr, code, se := c.replayOnce(path)
	if t, err := kit.ReadTrace(path); err == nil && t.Cfg("attempts", 1) > 1 {
		for a := int64(1); a < t.Cfg("attempts", 1) && (rr == nil || rr.Viol == nil); a++ {
			rr, code, se = c.replayOnce(path)
		}
	}
	if rr == nil {
		if class, ok := crashClass(se); ok {
			fmt.Printf("replay: the process crashed: class=%s\n%s\n", class, headTail(se, 1200))
			fmt.Printf("VIOLATION property=%s replay=%s\n", c.id, path)
			return 1
		}
		fmt.Fprintf(os.Stderr, "replay could not run (exit %d): %s\n", code, se)
		return 2
	}
	if rr.Viol != nil {
		fmt.Printf("replay: class=%s step=%d\n%s\n", rr.Viol.Class, rr.Viol.Step, rr.Viol.Detail)
		fmt.Printf("VIOLATION property=%s replay=%s\n", c.id, path)
		return 1
	}
	for _, k := range rr.Known {
		fmt.Printf("KNOWN-FINDING: property=%s %s (key %s)\n", c.id, k.Detail, k.Key)
	}
	fmt.Printf("replay: no violation in %d steps\n", rr.Steps)
	return 0
}

func (c *checker) fail2(format string, a ...interface{}) int {
	fmt.Fprintf(os.Stderr, "CHECK-ERROR property=%s: "+format+"\n", append([]interface{}{c.id}, a...)...)
	return 2
}

func (c *checker) run() int {
	_ = os.RemoveAll(c.outDir())
	if err := os.MkdirAll(c.outDir(), 0o755); err != nil {
		return c.fail2("%v", err)
	}
	budget := c.entry.Quick
	if c.tier == "thorough" {
		budget = c.entry.Thorough
	}
	if v := envInt("VERIF_BUDGET_S", 0); v > 0 {
		budget.WallS = int(v)
	}
	if v := envInt("VERIF_RUNS", 0); v > 0 {
		budget.Runs = v
	}
	c.wallS = budget.WallS
	fmt.Printf("check %s tier=%s VERIF_SEED=%d workers=%d budget=%d runs / %ds\n", c.id, c.tier, c.seed, c.workers, budget.Runs, budget.WallS)

	// 1. model self-tests
	if _, se, code := c.spawn("selftest", "selftest", "--prop", c.id); code != 0 {
		return c.fail2("self-test failed (exit %d): %s", code, se)
	}

	// 2. determinism: the same seeds in two fresh processes give the same log
	detN := "60"
	var hashes [2]uint64
	probeUnconfirmed := false
	for i := 0; i < 2; i++ {
		if i == 1 {
			// a dependency on the wall clock's second would otherwise go unnoticed
			time.Sleep(1100 * time.Millisecond)
		}
		out := filepath.Join(c.outDir(), fmt.Sprintf("det%d.json", i))
		_, se, code := c.spawn(fmt.Sprintf("det%d", i), "work", "--prop", c.id, "--seed", fmt.Sprint(c.seed), "--start", "1000000007", "--count", detN, "--out", out, "--known", c.knownKs, "--samples", "0", "--marker", filepath.Join(c.outDir(), fmt.Sprintf("marker-det%d", i)))
		if code != 0 {
			return c.workerCrash(fmt.Sprintf("det%d", i), code, se)
		}
		var wr WorkerResult
		b, _ := os.ReadFile(out)
		if err := json.Unmarshal(b, &wr); err != nil {
			return c.fail2("determinism run output: %v", err)
		}
		hashes[i] = wr.LogHash
		if wr.Failure != nil {
			// a failure in the determinism sample is handled by the main batch too,
			// but report it through the normal path right away
			c.failW = &wr
			if rc := c.handleFailure(wr.Failure, nil); rc != 2 {
				return rc
			}
			// not confirmed by a fresh process: never a violation by itself,
			// but the main batch may find a failing run that does replay
			fmt.Println("note: the failing run of the determinism sample could not be confirmed; continuing with the main batch")
			probeUnconfirmed = true
			c.failW = nil
			break
		}
	}
	if !probeUnconfirmed && hashes[0] != hashes[1] {
		return c.fail2("simulator is not deterministic: event-log hash %x vs %x for the same %s seeds", hashes[0], hashes[1], detN)
	}

	// 3. listed known findings: re-verify each from its stored replay
	for _, k := range c.known {
		if k.Property != c.id || k.Replay == "" {
			continue
		}
		if k.Status == "fixed" {
			// regression: the history that used to fail must pass now; if the
			// defect has returned it is reported like any other violation
			rr, code, se := c.replayOnce(filepath.Join(c.verif, k.Replay))
			if rr == nil {
				return c.fail2("replay of fixed finding %s failed (exit %d): %s", k.Key, code, se)
			}
			if rr.Viol != nil {
				fmt.Printf("the history of the finding recorded as fixed in %s fails again\n", k.Commit)
				return c.handleFailure(rr.Trace, nil)
			}
			continue
		}
		if k.Status != "known" {
			continue
		}
		rr, code, se := c.replayOnce(filepath.Join(c.verif, k.Replay))
		if rr == nil {
			return c.fail2("replay of known finding %s failed (exit %d): %s", k.Key, code, se)
		}
		hit := false
		for _, h := range rr.Known {
			if h.Key == k.Key {
				hit = true
			}
		}
		if hit {
			fmt.Printf("KNOWN-FINDING: property=%s %s [key=%s replay=%s]\n", c.id, k.What, k.Key, k.Replay)
		} else if rr.Viol != nil {
			// the stored history now fails differently: that is a new violation
			return c.handleFailure(rr.Trace, nil)
		} else {
			fmt.Printf("note: listed finding %s no longer reproduces from %s\n", k.Key, k.Replay)
		}
	}

	c.procsFor = func(tag string) int {
		if !strings.HasPrefix(tag, "w") {
			return int(c.procs) // replays etc. of a failure found under another P count
		}
		w, _ := strconv.Atoi(strings.TrimPrefix(tag, "w"))
		switch {
		case !c.desc.NeedsRace && w%8 == 3:
			return 4
		}
		return 1
	}
	// 4. the batch
	deadline := time.Now().Add(time.Duration(budget.WallS) * time.Second).Unix()
	per := (budget.Runs + int64(c.workers) - 1) / int64(c.workers)
	results := make([]*WorkerResult, c.workers)
	errs := make([]string, c.workers)
	codes := make([]int, c.workers)
	var wg sync.WaitGroup
	for w := 0; w < c.workers; w++ {
		wg.Add(1)
		go func(w int) {
			defer wg.Done()
			out := filepath.Join(c.outDir(), fmt.Sprintf("w%d.json", w))
			tag := fmt.Sprintf("w%d", w)
			if c.bin386 != "" && w%8 == 7 {
				tag = "x86-" + tag // the same seeds stride, on a 32-bit build
			}
			_, se, code := c.spawn(tag, "work", "--prop", c.id, "--seed", fmt.Sprint(c.seed), "--start", fmt.Sprint(w), "--stride", fmt.Sprint(c.workers), "--count", fmt.Sprint(per), "--deadline", fmt.Sprint(deadline), "--out", out, "--known", c.knownKs, "--marker", filepath.Join(c.outDir(), "marker-"+tag))
			codes[w] = code
			errs[w] = se
			if code != 0 {
				return
			}
			b, err := os.ReadFile(out)
			if err != nil {
				codes[w], errs[w] = 2, err.Error()
				return
			}
			var wr WorkerResult
			if err := json.Unmarshal(b, &wr); err != nil {
				codes[w], errs[w] = 2, err.Error()
				return
			}
			results[w] = &wr
		}(w)
	}
	wg.Wait()
	for w := range results {
		if codes[w] != 0 {
			tag := fmt.Sprintf("w%d", w)
			if c.bin386 != "" && w%8 == 7 {
				tag = "x86-" + tag
			}
			return c.workerCrash(tag, codes[w], errs[w])
		}
	}

	// 5. aggregate
	agg := kit.NewStats()
	sigs := map[uint64]struct{}{}
	shift := uint(0)
	var failure *kit.Trace
	var failing []*WorkerResult
	var samples []*kit.Trace
	knownHits := map[string]*KnownHit{}
	extra := map[string]float64{}
	for _, r := range results {
		agg.Merge(r.Stats)
		if r.SigShift > shift {
			shift = r.SigShift
		}
		for k, h := range r.Known {
			if knownHits[k] == nil {
				knownHits[k] = h
			} else {
				knownHits[k].Count += h.Count
			}
		}
		if r.Failure != nil {
			failing = append(failing, r)
			if failure == nil || r.Failure.Size() < failure.Size() {
				failure = r.Failure
			}
		}
		if r.Arch == "386" {
			c.n386++
		}
		if len(samples) < 3 && len(r.Samples) > 0 {
			samples = append(samples, r.Samples[0])
		}
		for k, v := range r.Extra {
			if f, ok := v.(float64); ok {
				extra[k] += f
			}
		}
	}
	for _, r := range results {
		for _, s := range r.Sigs {
			if shift == 0 || s&((1<<shift)-1) == 0 {
				sigs[s] = struct{}{}
			}
		}
	}
	if failure != nil {
		// Smallest failing run first. A failure that cannot be reproduced in
		// a fresh process (code under test that starts goroutines of its own,
		// say) is never reported as a violation; but another worker's failure
		// of the same batch may well be reproducible, so each is tried before
		// giving up with a check error.
		sort.SliceStable(failing, func(i, j int) bool { return failing[i].Failure.Size() < failing[j].Failure.Size() })
		c.distinctAtFailure = len(sigs)
		bin0, procs0 := c.bin, c.procs
		rc := 2
		for i, r := range failing {
			c.bin, c.procs = bin0, procs0
			c.failW = r
			failure = r.Failure
			if r.Procs > 1 {
				c.procs = int64(r.Procs)
				if failure.Config == nil {
					failure.Config = map[string]int64{}
				}
				failure.Config["gomaxprocs"] = c.procs
			}
			if r.Arch == "386" && c.bin386 != "" {
				// found on the 32-bit build: replay and minimise there
				c.bin = c.bin386
				if failure.Config == nil {
					failure.Config = map[string]int64{}
				}
				failure.Config["goarch_386"] = 1
			}
			if rc = c.handleFailure(failure, agg); rc != 2 {
				return rc
			}
			if i+1 < len(failing) {
				fmt.Printf("note: that failing run could not be confirmed; trying the failing run of another worker (%d of %d)\n", i+2, len(failing))
			}
		}
		return rc
	}
	if probeUnconfirmed {
		return c.fail2("a run of the determinism sample failed but could not be confirmed in a fresh process, and the main batch found nothing: not a finding, not a pass")
	}
	for _, k := range sortedHitKeys(knownHits) {
		fmt.Printf("note: known finding %s observed in %d runs of this batch\n", k, knownHits[k].Count)
	}
	if err := c.writeEvidence(agg, len(sigs), shift, samples, knownHits, extra, 0, ""); err != nil {
		return c.fail2("evidence: %v", err)
	}
	wall := time.Since(c.t0).Seconds()
	fmt.Printf("OK property=%s runs=%d nontrivial=%d distinct_nontrivial=%d steps=%d wall=%.1fs\n", c.id, agg.Runs, agg.NonTrivial, len(sigs), agg.Steps, wall)
	return 0
}

func sortedHitKeys(m map[string]*KnownHit) []string {
	ks := make([]string, 0, len(m))
	for k := range m {
		ks = append(ks, k)
	}
	sort.Strings(ks)
	return ks
}

// workerCrash classifies a worker process that died: engines may turn a
// crash into a violation (e.g. a deadlock of the code under test found by
// the watchdog); otherwise it is framework trouble (exit 2).
func crashClass(stderr string) (string, bool) {
	if !strings.Contains(stderr, "github.com/gcash/bchutil") {
		return "", false
	}
	for _, l := range strings.Split(stderr, "\n") {
		if strings.HasPrefix(l, "fatal error:") || strings.HasPrefix(l, "runtime: goroutine stack exceeds") {
			l = strings.TrimPrefix(l, "fatal error: ")
			if strings.HasPrefix(l, "runtime: goroutine stack exceeds") {
				l = "stack overflow"
			}
			return "crash:" + l, true
		}
	}
	return "", false
}

func headTail(s string, n int) string {
	if len(s) <= 2*n {
		return s
	}
	return s[:n] + "\n...\n" + s[len(s)-n:]
}

// crashByIndex turns a worker crash (fatal runtime error, which recover()
// cannot intercept: stack overflow, runtime deadlock, concurrent map write)
// into a violation if re-drawing the run in progress from its seed crashes a
// fresh process the same way, inside the code under test.
func (c *checker) crashByIndex(tag string, stderr string) (int, bool) {
	b, err := os.ReadFile(filepath.Join(c.outDir(), "marker-"+tag))
	if err != nil || len(b) < 8 {
		return 0, false
	}
	class, ok := crashClass(stderr)
	if !ok {
		return 0, false
	}
	idx := binary.LittleEndian.Uint64(b)
	t := &kit.Trace{Property: c.id, Seed: kit.Mix(c.seed, idx), Kind: "regenerate-from-seed"}
	raw := filepath.Join(c.outDir(), "crash-regen.json")
	if t.WriteFile(raw) != nil {
		return 0, false
	}
	_, se, code := c.spawn("crashreplay", "replay", "--prop", c.id, "--file", raw, "--known", c.knownKs, "--json")
	class2, ok2 := crashClass(se)
	if code == 0 || code == 1 || !ok2 || class2 != class {
		return c.fail2("worker %s crashed (%s) but re-drawing run %d from its seed in a fresh process does not crash the same way; not reported as a finding", tag, class, idx), true
	}
	t.Viol = &kit.Violation{Class: class, Key: class, Detail: "the process died with a fatal runtime error inside the code under test (cannot be recovered by a caller):\n" + headTail(se, 1800)}
	dir := filepath.Join(c.verif, "replays", c.id)
	_ = os.MkdirAll(dir, 0o755)
	final := filepath.Join(dir, fmt.Sprintf("%d-%s.json", t.Seed, safeName(class)))
	if err := t.WriteFile(final); err != nil {
		return c.fail2("%v", err), true
	}
	fmt.Printf("violation: class=%s (run re-drawn from seed %d crashes a fresh process the same way)\n%s\n", class, t.Seed, headTail(se, 1200))
	agg := kit.NewStats()
	agg.Runs = 1
	_ = c.writeEvidence(agg, 0, 0, []*kit.Trace{t}, nil, nil, 1, final)
	fmt.Printf("VIOLATION property=%s replay=%s\n", c.id, final)
	return 1, true
}

func (c *checker) workerCrash(tag string, code int, stderr string) int {
	if rc, handled := c.crashByIndex(tag, stderr); handled {
		return rc
	}
	crashFile := filepath.Join(c.outDir(), "crash-"+tag+".json")
	if b, err := os.ReadFile(crashFile); err == nil {
		var t kit.Trace
		if json.Unmarshal(b, &t) == nil && t.Viol != nil {
			return c.handleFailure(&t, nil)
		}
	}
	if len(stderr) > 4000 {
		stderr = stderr[:4000]
	}
	return c.fail2("worker %s exited %d: %s", tag, code, stderr)
}

func safeName(s string) string {
	var b strings.Builder
	for _, r := range s {
		if r >= 'a' && r <= 'z' || r >= 'A' && r <= 'Z' || r >= '0' && r <= '9' || r == '-' || r == '.' {
			b.WriteRune(r)
		} else {
			b.WriteByte('_')
		}
	}
	out := b.String()
	if len(out) > 80 {
		out = out[:80]
	}
	return out
}

// handleFailure minimises a failing trace, verifies that the minimised file
// replays to the same class in fresh processes, and reports it.
func (c *checker) handleFailure(t *kit.Trace, agg *kit.Stats) int {
	dir := filepath.Join(c.verif, "replays", c.id)
	_ = os.MkdirAll(dir, 0o755)
	raw := filepath.Join(c.outDir(), "failure-raw.json")
	if err := t.WriteFile(raw); err != nil {
		return c.fail2("%v", err)
	}
	base, code, se := c.replayOnce(raw)
	if base == nil {
		return c.fail2("replay of failing run could not run (exit %d): %s", code, se)
	}
	if base.Viol == nil && c.failW != nil {
		if rc, handled := c.sequenceReplay(t); handled {
			return rc
		}
	}
	if base.Viol == nil {
		return c.fail2("a run failed (%s) but its recorded trace does not fail on replay in a fresh process: simulator non-determinism, not a finding; trace kept at %s", violClass(t), raw)
	}
	class := base.Viol.Class
	if base.Trace == nil {
		base.Trace = t // the replay process died reporting the violation (watchdog)
	}
	fmt.Printf("violation found: class=%s (seed %d, %d elements); minimising\n", class, t.Seed, t.Size())
	minPath := filepath.Join(c.outDir(), "failure-min.json")
	if !c.desc.FreshProcess {
		_, se, code := c.spawn("min", "minimise", "--prop", c.id, "--file", raw, "--out", minPath, "--known", c.knownKs)
		if code != 0 {
			fmt.Fprintf(os.Stderr, "minimiser exited %d (%s); reporting the unminimised trace\n", code, strings.TrimSpace(se))
			minPath = raw
		}
	} else {
		n := 0
		test := func(cand *kit.Trace) bool {
			n++
			p := filepath.Join(c.outDir(), fmt.Sprintf("cand-%d.json", n))
			defer os.Remove(p)
			if cand.WriteFile(p) != nil {
				return false
			}
			rr, _, _ := c.replayOnce(p)
			return rr != nil && rr.Viol != nil && rr.Viol.Class == class
		}
		eng := c.entry.New(knownSet(c.knownKs))
		budget := 400
		if strings.HasPrefix(class, "deadlock:blocked") {
			budget = 30 // every candidate costs the watchdog's patience
		}
		m, evals := kit.Minimise(base.Trace, test, eng.Simplify, budget)
		fmt.Fprintf(os.Stderr, "minimise: %d -> %d elements in %d fresh-process evaluations\n", base.Trace.Size(), m.Size(), evals)
		if err := m.WriteFile(minPath); err != nil {
			minPath = raw
		}
	}
	// verify twice in fresh processes
	var fin *ReplayResult
	for i := 0; i < 2; i++ {
		rr, code, se := c.replayOnce(minPath)
		if rr == nil {
			return c.fail2("replay of minimised trace could not run (exit %d): %s", code, se)
		}
		if rr.Viol == nil || rr.Viol.Class != class {
			if minPath != raw {
				minPath = raw
				i = -1
				continue
			}
			// It did replay once (base) but not every time: the code under
			// test behaves nondeterministically beyond what the simulator
			// owns (e.g. goroutines it starts itself). Report it with an
			// attempts count rather than dropping a real finding.
			base.Trace.Viol = base.Viol
			if base.Trace.Config == nil {
				base.Trace.Config = map[string]int64{}
			}
			base.Trace.Config["attempts"] = 12
			base.Viol.Detail = "(not reproduced by every execution: nondeterminism in the code under test that the simulator does not control; the replay tries up to 12 fresh processes)\n" + base.Viol.Detail
			final := filepath.Join(dir, fmt.Sprintf("%d-%s.json", t.Seed, safeName(class)))
			if err := base.Trace.WriteFile(final); err != nil {
				return c.fail2("%v", err)
			}
			fmt.Printf("violation: class=%s key=%s\n%s\n", base.Viol.Class, base.Viol.Key, base.Viol.Detail)
			if agg == nil {
				agg = kit.NewStats()
				agg.Runs = 1
			}
			_ = c.writeEvidence(agg, c.distinctAtFailure, 0, []*kit.Trace{base.Trace}, nil, nil, 1, final)
			fmt.Printf("VIOLATION property=%s replay=%s\n", c.id, final)
			return 1
		}
		if fin != nil && (fin.Viol.Step != rr.Viol.Step) {
			return c.fail2("violation %s replays at different steps (%d vs %d): simulator non-determinism; trace kept at %s", class, fin.Viol.Step, rr.Viol.Step, minPath)
		}
		fin = rr
	}
	if fin.Trace == nil {
		if mt, err := kit.ReadTrace(minPath); err == nil {
			fin.Trace = mt
		} else {
			fin.Trace = t
		}
	}
	fin.Trace.Viol = fin.Viol
	final := filepath.Join(dir, fmt.Sprintf("%d-%s.json", t.Seed, safeName(class)))
	if err := fin.Trace.WriteFile(final); err != nil {
		return c.fail2("%v", err)
	}
	// a "fixed" entry suppresses nothing; a "known" entry would have been
	// filtered by the engine already, so whatever arrives here is reported.
	for _, k := range c.known {
		if k.Property == c.id && k.Status == "fixed" && k.Key == fin.Viol.Key {
			fmt.Printf("note: this violation matches a finding recorded as fixed (%s): it has returned\n", k.Commit)
		}
	}
	fmt.Printf("violation: class=%s key=%s step=%d\n%s\n", fin.Viol.Class, fin.Viol.Key, fin.Viol.Step, fin.Viol.Detail)
	fmt.Printf("minimised history (%d elements):\n", fin.Trace.Size())
	for i, o := range fin.Trace.Ops {
		fmt.Printf("  %2d. %s\n", i+1, o.String())
	}
	for ci, cl := range fin.Trace.Clients {
		for i, o := range cl {
			fmt.Printf("  client %d op %d: %s\n", ci, i+1, o.String())
		}
	}
	if len(fin.Trace.Schedule) > 0 {
		fmt.Printf("  schedule: %v\n", fin.Trace.Schedule)
	}
	if agg == nil {
		agg = kit.NewStats()
		agg.Runs = 1
	}
	_ = c.writeEvidence(agg, c.distinctAtFailure, 0, []*kit.Trace{fin.Trace}, nil, nil, 1, final)
	fmt.Printf("VIOLATION property=%s replay=%s\n", c.id, final)
	return 1
}

// sequenceReplay handles a failure that does not reproduce when its run is
// executed alone: if re-drawing a suffix of the worker's run sequence in a
// fresh process reproduces the same class, the library carries state across
// uses; the shortest such suffix (by doubling) becomes the replay file.
func (c *checker) sequenceReplay(t *kit.Trace) (int, bool) {
	w := c.failW
	class := violClass(t)
	mk := func(from int64) *kit.Trace {
		return &kit.Trace{Property: c.id, Seed: c.seed, Kind: "regenerate-sequence", Config: map[string]int64{"start": w.First, "stride": w.Stride, "from": from, "to": w.FailN}}
	}
	try := func(from int64) *ReplayResult {
		p := filepath.Join(c.outDir(), "seq-cand.json")
		if mk(from).WriteFile(p) != nil {
			return nil
		}
		rr, _, _ := c.replayOnce(p)
		if rr != nil && rr.Viol != nil {
			return rr // (the class may differ from the batch's: what matters is a violation that replays)
		}
		return nil
	}
	var hit *ReplayResult
	from := w.FailN
	for span := int64(1); ; span *= 2 {
		from = w.FailN - span
		if from < 0 {
			from = 0
		}
		if hit = try(from); hit != nil || from == 0 {
			break
		}
	}
	attempts := int64(1)
	if hit == nil {
		// Not reproducible in one attempt: the code under test may contain
		// nondeterminism the simulator does not control (goroutines it starts
		// itself, timers). Re-draw the whole sequence a few more times; a
		// violation that shows up in some attempts is still reported, and
		// the replay file says how often to try.
		from = 0
		if w.FailN > 256 {
			from = w.FailN - 256
		}
		for a := int64(2); a <= 6 && hit == nil; a++ {
			hit = try(from)
			attempts = a
		}
		if hit == nil {
			return 0, false
		}
		attempts = 12
	}
	// tighten: drop leading runs one power of two at a time
	for step := (w.FailN - from) / 2; step >= 1 && attempts == 1; step /= 2 {
		if rr := try(from + step); rr != nil {
			from += step
			hit = rr
		}
	}
	final := mk(from)
	if attempts > 1 {
		final.Config["attempts"] = attempts
		hit.Viol.Detail = "(not reproduced by every execution: the code under test behaves nondeterministically beyond what the simulator controls - e.g. goroutines it starts itself; the replay tries up to " + fmt.Sprint(attempts) + " fresh processes)\n" + hit.Viol.Detail
	}
	final.Viol = hit.Viol
	dir := filepath.Join(c.verif, "replays", c.id)
	_ = os.MkdirAll(dir, 0o755)
	path := filepath.Join(dir, fmt.Sprintf("%d-seq-%s.json", t.Seed, safeName(class)))
	if final.WriteFile(path) != nil {
		return 0, false
	}
	if attempts == 1 {
		if rr, _, _ := c.replayOnce(path); rr == nil || rr.Viol == nil || rr.Viol.Class != hit.Viol.Class {
			return 0, false
		}
	}
	class = hit.Viol.Class
	fmt.Printf("violation: class=%s key=%s\n%s\n", hit.Viol.Class, hit.Viol.Key, hit.Viol.Detail)
	fmt.Printf("replay re-draws runs %d..%d of worker sequence (start %d, stride %d) of VERIF_SEED %d in one fresh process\n", from, w.FailN, w.First, w.Stride, c.seed)
	agg := kit.NewStats()
	agg.Runs = w.FailN - from + 1
	_ = c.writeEvidence(agg, c.distinctAtFailure, 0, []*kit.Trace{final}, nil, nil, 1, path)
	fmt.Printf("VIOLATION property=%s replay=%s\n", c.id, path)
	return 1, true
}

func violClass(t *kit.Trace) string {
	if t.Viol != nil {
		return t.Viol.Class
	}
	return "?"
}

func (c *checker) writeEvidence(agg *kit.Stats, distinct int, shift uint, samples []*kit.Trace, known map[string]*KnownHit, extra map[string]float64, violations int, replay string) error {
	wall := time.Since(c.t0).Seconds()
	cov := map[string]interface{}{
		"evaluations":         agg.Runs,
		"distinct_nontrivial": distinct,
		"nontrivial_runs":     agg.NonTrivial,
		"rule":                c.desc.Rule,
		"sim_steps":           agg.Steps,
		"simulated_time_note": "this system has no clock; simulated time is counted in operations / scheduler steps (sim_steps)",
		"runs_per_hour":       int64(float64(agg.Runs) / wall * 3600),
		"fault_counts":        agg.Faults,
		"probes":              agg.Probes,
		"op_counts":           agg.Ops,
		"real_vs_stub":        c.desc.RealVsStub,
		"run_seed_derivation": fmt.Sprintf("run i uses Mix(VERIF_SEED=%d, i), i = 0..%d (stride over %d worker processes)", c.seed, agg.Runs-1, c.workers),
		"workers":             c.workers,
		"configurations":      map[string]int{"linux/amd64 worker processes": c.workers - c.n386, "linux/386 worker processes (32-bit int)": c.n386},
		"depth_factor":        map[string]int{"quick": 1, "thorough": 3}[c.tier],
		"exhaustive":          false,
	}
	if len(c.desc.Legend) > 0 {
		cov["legend"] = c.desc.Legend
	}
	if shift > 0 {
		cov["distinct_nontrivial_note"] = fmt.Sprintf("signature sets were down-sampled by hash (1 in 2^%d) to bound memory; the count given is the exact number of distinct sampled signatures, a lower bound of the true number", shift)
	}
	if len(agg.Extra) > 0 {
		cov["counters"] = agg.Extra
	}
	for k, v := range extra {
		cov[k] = v
	}
	var ss []interface{}
	for _, s := range samples {
		ss = append(ss, s)
	}
	if len(ss) == 0 {
		ss = append(ss, "no non-trivial run in this batch")
	}
	cov["samples"] = ss
	if len(known) > 0 {
		kk := map[string]int64{}
		for k, h := range known {
			kk[k] = h.Count
		}
		cov["known_finding_hits"] = kk
	}
	if replay != "" {
		cov["violation_replay"] = replay
	}
	ev := map[string]interface{}{
		"property_id": c.id,
		"tier":        c.tier,
		"seed":        c.seed,
		"level":       "exploration",
		"coverage":    cov,
		"assumptions": c.desc.Assumptions,
		"wall_s":      wall,
		"violations":  violations,
	}
	b, err := json.MarshalIndent(ev, "", " ")
	if err != nil {
		return err
	}
	_ = os.MkdirAll(filepath.Join(c.verif, "evidence"), 0o755)
	return os.WriteFile(filepath.Join(c.verif, "evidence", c.id+".json"), append(b, '\n'), 0o644)
}
