// findkeys searches, with the BIP32 MODEL only (never the library under
// test), for (seed, hardened index) pairs whose child private key starts
// with two zero bytes - a distinguished value for the C15 generator.
package main

import (
	"fmt"

	"verif/sim/model"
)

func main() {
	xprv := [4]byte{0x04, 0x88, 0xad, 0xe4}
	found := 0
	for s := 0; found < 6 && s < 64; s++ {
		seed := []byte(fmt.Sprintf("verif distinguished seed %02d....", s))
		m, err := model.Master(seed, xprv)
		if err != nil {
			continue
		}
		for i := uint32(0); i < 200000; i++ {
			idx := i
			if s%2 == 0 {
				idx |= 1 << 31
			}
			c, err := m.Child(idx)
			if err != nil {
				continue
			}
			if c.Key[0] == 0 && c.Key[1] == 0 {
				fmt.Printf("{%q, %d},\n", string(seed), idx)
				found++
				break
			}
		}
	}
}
