package props

import (
	"verif/sim/model"
	"verif/sim/sched"
)

// SelfTest is a start-up check of a model or of a simulator assumption; a
// failure is framework trouble (exit 2), never a violation.
type SelfTest struct {
	Name string
	For  map[string]bool
	Run  func() error
}

// SelfTests lists them.
var SelfTests = []SelfTest{
	{Name: "bip32-model-vectors", For: map[string]bool{"C15": true}, Run: model.SelfTestBIP32},
	{Name: "hd-version-table", For: map[string]bool{"C15": true}, Run: selfTestNets},
	{Name: "mutex-layout", For: map[string]bool{"C20": true}, Run: sched.SelfTestMutexLayout},
	{Name: "bloom-model-vectors", For: map[string]bool{"C09": true, "C10": true, "C20": true}, Run: model.SelfTestBloom},
}
