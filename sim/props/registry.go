package props

import "verif/sim/kit"

// Tier budgets per property: number of runs and a wall-clock cap (the cap
// only limits how many seeds are explored; it never influences a run).
type Budget struct {
	Runs  int64
	WallS int
}

// Entry registers one property's engine.
type Entry struct {
	New      func(known map[string]bool) kit.Engine
	Quick    Budget
	Thorough Budget
}

// Registry lists the claimed properties.
var Registry = map[string]Entry{}

func register(id string, e Entry) { Registry[id] = e }

func init() {
	register("C19", Entry{New: C19, Quick: Budget{4000000, 40}, Thorough: Budget{80000000, 1500}})
	register("C16", Entry{New: func(map[string]bool) kit.Engine { return C16() }, Quick: Budget{400000, 40}, Thorough: Budget{60000000, 1500}})
	register("C15", Entry{New: func(map[string]bool) kit.Engine { return C15() }, Quick: Budget{60000, 40}, Thorough: Budget{20000000, 1500}})
	register("C10", Entry{New: func(map[string]bool) kit.Engine { return C10() }, Quick: Budget{300000, 40}, Thorough: Budget{40000000, 1500}})
	register("C20", Entry{New: C20, Quick: Budget{300000, 50}, Thorough: Budget{40000000, 1500}})
	register("C09", Entry{New: func(map[string]bool) kit.Engine { return C09() }, Quick: Budget{1500000, 40}, Thorough: Budget{60000000, 1500}})
}
