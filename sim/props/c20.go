package props

import (
	"bytes"
	"fmt"
	"os"
	"runtime"
	"runtime/debug"
	"sort"
	"strings"
	"sync"
	"time"

	"github.com/anishathalye/porcupine"
	"github.com/gcash/bchd/chaincfg/chainhash"
	"github.com/gcash/bchd/wire"
	"github.com/gcash/bchutil"
	"github.com/gcash/bchutil/bloom"
	"github.com/gcash/bchutil/gcs"

	"verif/sim/kit"
	"verif/sim/model"
	"verif/sim/sched"
)

// C20: k client goroutines on one shared bloom.Filter (or gcs.Filter) under
// the seeded scheduler, with the Go race detector watching the real code and
// porcupine checking the recorded history against the BIP37 model.

// Harness sites (bloom sites are 1..7, gcs sites 16+).
const (
	siteOpStart  = 40
	siteOpEnd    = 41
	gcsSiteBase  = 16
	siteStmt     = 20 // inserted before every statement of bloom/filter.go, bloom/merkleblock.go
	siteStmtGCS  = gcsSiteBase + 20
	siteStmtRepo = 21 // before every statement of the repository's other packages (root, merkleblock, new sub-packages)
	stmtEveryKey = "stmt_every"
)

// active is the scheduler of the run in progress. It is written by the main
// goroutine before the task goroutines are created and after they are joined,
// so the tasks' reads are ordered by goroutine creation.
var active *sched.Sched

const (
	kindLin = iota
	kindComposite
	kindGCS
)

type c20Engine struct {
	known    map[string]bool
	racePath string
	raceOff  int64
	porc     struct{ ok, illegal, unknown int64 }
	prepared bool
	lin      *linChild
	// distinct decision sequences (task, site, next) seen by this worker
	schedSigs map[uint64]struct{}

	// what the watchdog needs to know
	curTrace *kit.Trace
	crashOut string
}

// C20 returns the engine.
func C20(known map[string]bool) kit.Engine {
	return &c20Engine{known: known, schedSigs: map[uint64]struct{}{}}
}

func (e *c20Engine) ID() string { return "C20" }

func (e *c20Engine) Describe() kit.Description {
	return kit.Description{
		Rule: "one run = k real goroutines (k 2..4 mostly, up to 32; GCS up to 100) issuing drawn operation lists on one shared bloom.Filter (kinds: linearizability run, optionally with a bystander task on a private second filter or a long reload storm / block-scan composite run) or one shared gcs.Filter (built or deserialised, warm or first used concurrently), under a seeded scheduler that decides who runs at every simulation point (hand-placed hooks plus a point before every statement of every package of the scratch copy; drawn site subset, density and policy per run), with the race detector on; non-trivial = operations of at least two tasks overlap in scheduler steps and (bloom kinds) at least one overlapping operation writes; distinct = distinct FNV-64 signature of (operation lists, sequence of (task, site, next task) decisions)",
		RealVsStub: map[string]string{
			"bloom.Filter, bloom.GetMatchedIndices, bloom.NewMerkleBlock, gcs.Filter, bchutil.Tx/Block": "real (from /repo working tree, built with -race -tags verif)",
			"sync.Mutex, Go runtime, race detector":                                                     "real",
			"bchd/wire, bchd/txscript, kkdai/bstream, aead/siphash":                                     "real dependencies",
			"client tasks, scheduler (who runs next), reference model, history checker (porcupine)":     "harness",
			"network / disk / clock": "none exist in this system",
		},
		Assumptions: []string{
			"one P (GOMAXPROCS=1): executions are sequentially consistent; weak-memory effects are represented only through the race detector's happens-before verdict",
			"interleavings are explored at the granularity of the simulation points (before/after Lock, before Unlock, per hash function, per output, between phases, per block transaction, per decoded GCS value) plus operation boundaries",
			"sync.Mutex keeps its locked flag in bit 0 of its first word (self-tested at start-up)",
			"the race detector keeps a bounded access history per word; runs are short (hundreds of accesses)",
		},
		Legend: map[string]string{
			"site_01": "bloom: about to Lock the filter mutex (gate: not enabled while the real mutex is held)",
			"site_02": "bloom: just acquired the filter mutex",
			"site_03": "bloom: about to Unlock",
			"site_04": "bloom: between two hash functions of add / matches",
			"site_05": "bloom: between the output phase and the input phase of matchTxAndUpdate",
			"site_06": "bloom: between two outputs of matchTxAndUpdate",
			"site_07": "bloom: between two transactions of a block scan",
			"site_17": "gcs: about to decode one value from the bit stream",
			"site_18": "gcs: between two iterations of a query loop",
			"site_19": "gcs: just took the private copy of the filter bytes",
			"site_20": "bloom: before any statement (inserted automatically in the scratch copy; every k-th offers a decision)",
			"site_21": "other packages of the repository (root package, merkleblock, sub-packages): before any statement (scratch copy only)",
			"site_36": "gcs: before any statement (inserted automatically in the scratch copy; every k-th offers a decision)",
			"site_40": "harness: before a client operation is invoked",
			"site_41": "harness: after a client operation returned",
			"site_62": "scheduler: a task released by the runtime claimed the idle baton",
			"site_63": "scheduler: take-over after the current task was found blocked inside the runtime",
		},
		NeedsRace:    true,
		FreshProcess: true,
	}
}

func (e *c20Engine) Prepare() error {
	if e.prepared {
		return nil
	}
	e.prepared = true
	// Always one P for the goroutine scheduler: with two, the waiters spin in
	// parallel with the current task and the rotation-counting argument behind
	// the runtime-blocked detection no longer holds (tried: false deadlocks).
	runtime.GOMAXPROCS(1)
	if err := sched.SelfTestMutexLayout(); err != nil {
		return err
	}
	bloom.SimHook = func(site int, mu *sync.Mutex) {
		if a := active; a != nil {
			a.Yield(site, mu)
		}
	}
	gcs.SimHook = func(site int) {
		if a := active; a != nil {
			a.Yield(gcsSiteBase+site, nil)
		}
	}
	for _, kv := range strings.Fields(os.Getenv("GORACE")) {
		if strings.HasPrefix(kv, "log_path=") {
			e.racePath = strings.TrimPrefix(kv, "log_path=") + "." + fmt.Sprint(os.Getpid())
		}
	}
	if bin := os.Getenv("VERIF_LIN_BIN"); bin != "" && os.Getenv("VERIF_LIN_INPROC") == "" {
		c, err := startLinChild(bin)
		if err != nil {
			return err
		}
		e.lin = c
	}
	go e.watchdog()
	return nil
}

// watchdog uses the real clock only to detect a stuck simulator (a task
// blocked in a real Lock that no simulation point precedes); it never
// influences a run.
func (e *c20Engine) watchdog() {
	last := sched.Progress()
	idle := 0
	for {
		time.Sleep(500 * time.Millisecond)
		p := sched.Progress()
		if p != last || !sched.InRun() {
			last, idle = p, 0
			continue
		}
		idle++
		if idle < 8 {
			continue
		}
		buf := make([]byte, 1<<20)
		buf = buf[:runtime.Stack(buf, true)]
		class := ""
		for _, g := range strings.Split(string(buf), "\n\n") {
			if !strings.Contains(g, "github.com/gcash/bchutil") {
				continue
			}
			if strings.Contains(g, "sync.(*Mutex).Lock") && (strings.Contains(g, "[sync.Mutex.Lock") || strings.Contains(g, "[semacquire")) {
				class = "deadlock:blocked-in-real-Lock"
				break
			}
			// a TASK goroutine parked inside the code under test on any other
			// blocking primitive (channel, Cond, RWMutex, WaitGroup) while
			// nothing has moved for seconds
			if strings.Contains(g, "sched.(*Sched).Run.func1") {
				for _, st := range []string{"[chan receive", "[chan send", "[select", "[sync.Cond.Wait", "[sync.RWMutex", "[sync.WaitGroup.Wait", "[semacquire", "[sync.Mutex.Lock"} {
					if strings.Contains(g, st) {
						class = "deadlock:task-blocked-forever-in-code-under-test"
					}
				}
			}
		}
		if class == "" {
			fmt.Fprintf(os.Stderr, "watchdog: simulator made no progress for 4s and no task is blocked in a Lock of the code under test\n%s\n", buf)
			os.Exit(3)
		}
		fmt.Fprintf(os.Stderr, "watchdog: %s\n", class)
		if cf := os.Getenv("VERIF_CRASH_FILE"); cf != "" && e.curTrace != nil && os.Getenv("VERIF_LIN_INPROC") == "" {
			// batch mode: leave the run in progress (with the schedule so
			// far) for the orchestrator, which replays it in a fresh process
			t := e.curTrace
			if a := active; a != nil {
				t.Schedule = a.Chosen()
			}
			t.Viol = &kit.Violation{Class: class, Key: class, Detail: "a task blocked forever inside a blocking primitive called from the code under test"}
			_ = t.WriteFile(cf)
			os.Exit(4)
		}
		fmt.Printf("{\"violation\":{\"class\":%q,\"key\":%q,\"detail\":\"a task blocked forever inside a blocking primitive (lock, channel, condition) called from the code under test while nothing else could move\",\"step\":0},\"steps\":0,\"sig\":0}\n", class, class)
		os.Exit(1)
	}
}

// ---------------------------------------------------------------- generation

type c20Shape struct {
	n      int
	hf, tw uint32
	fl     uint8
}

func (e *c20Engine) generate(seed uint64) (*kit.Trace, *kit.Rng) {
	root := kit.NewRng(seed)
	cr := root.Sub("config")
	wr := root.Sub("workload")
	t := &kit.Trace{Property: "C20", Seed: seed, Config: map[string]int64{}}
	kind := []int{kindLin, kindLin, kindLin, kindLin, kindLin, kindLin, kindLin, kindComposite, kindComposite, kindGCS}[cr.Intn(10)]
	t.Config["kind"] = int64(kind)
	// tasks
	nt := cr.Range(2, 4)
	maxOps := cr.Range(1, 8)
	if kit.Depth > 1 && cr.Chance(1, 2) {
		maxOps = cr.Range(4, 6+3*kit.Depth)
	}
	if cr.Chance(1, 12) {
		nt = []int{8, 16, 32}[cr.Intn(3)]
		maxOps = cr.Range(1, 2)
	}
	// policy
	pol := cr.Intn(10)
	switch {
	case pol < 4:
		t.Config["policy"] = sched.PolSticky
		t.Config["stay"] = int64(cr.Range(10, 15))
	case pol < 7:
		t.Config["policy"] = sched.PolUniform
	default:
		t.Config["policy"] = sched.PolPCT
		t.Config["pct_d"] = int64(cr.Range(1, 3))
	}
	// site subset ("buggify" subset): each site offers a decision with its own coin
	all := []int{bloom.SimSiteBeforeLock, bloom.SimSiteAfterLock, bloom.SimSiteBeforeUnlock, bloom.SimSiteHashLoop, bloom.SimSiteTxPhase, bloom.SimSiteTxOutput, bloom.SimSiteBlockTx,
		gcsSiteBase + gcs.SimSiteReadValue, gcsSiteBase + gcs.SimSiteQueryLoop, gcsSiteBase + gcs.SimSiteCopied, siteOpStart, siteOpEnd}
	dense := cr.Chance(1, 3)
	for _, s := range all {
		if dense || cr.Chance(1, 2) {
			t.Sites = append(t.Sites, s)
		}
	}
	if kind == kindLin && cr.Chance(1, 30) {
		t.Config["ungated"] = 1
	}
	// statement-level preemption (automatic instrumentation of the scratch
	// copy): in about half of the runs, every k-th statement offers a decision
	if cr.Chance(1, 2) {
		t.Sites = append(t.Sites, siteStmt, siteStmtGCS, siteStmtRepo)
		if kind == kindGCS {
			t.Config[stmtEveryKey] = int64([]int{8, 16, 32, 64}[cr.Intn(4)])
		} else {
			t.Config[stmtEveryKey] = int64([]int{1, 1, 2, 3, 5, 8}[cr.Intn(6)])
		}
	}
	if len(t.Sites) == 0 {
		t.Sites = []int{siteOpStart}
	}
	if kind == kindGCS {
		if cr.Chance(1, 25) {
			// "any number of goroutines": well beyond any small fixed-size
			// internal resource
			nt = []int{70, 100}[cr.Intn(2)]
			maxOps = 1
			t.Config["policy"] = sched.PolUniform
		}
		if cr.Chance(1, 4) {
			t.Config["gcs_warm"] = 1
		}
		if cr.Chance(1, 3) {
			t.Config["gcs_deser"] = 1
		}
		e.genGCS(t, cr, wr, nt, maxOps)
		return t, root.Sub("schedule")
	}
	// message objects
	nm := cr.Range(1, 4)
	var shapes []c20Shape
	for i := 0; i < nm; i++ {
		n := cr.Range(1, 4)
		if cr.Chance(1, 4) {
			n = cr.Range(1, 16)
		}
		hf := uint32(cr.Range(0, 6))
		if cr.Chance(1, 10) {
			hf = 0
		}
		if cr.Chance(1, 25) {
			// the wire-limit shape: such runs are decided by the race
			// detector, deadlock / leak detection and (many-task runs) the
			// interval check; porcupine is skipped for bit arrays > 64 bytes
			n = []int{4096, 36000}[cr.Intn(2)]
			hf = uint32(cr.Range(1, 50))
		}
		tw := []uint32{0, 1, 0xffffffff, cr.U32()}[cr.Intn(4)]
		sh := c20Shape{n, hf, tw, uint8(cr.Intn(3))}
		shapes = append(shapes, sh)
		t.Setup = append(t.Setup, kit.Op{K: "msg", N: []int64{int64(sh.n), int64(sh.hf), int64(sh.tw), int64(sh.fl)}})
	}
	init := 1
	if cr.Chance(1, 10) {
		init = 0
	}
	t.Setup = append(t.Setup, kit.Op{K: "init", H: init})
	// items
	var pool [][]byte
	for i, n := 0, cr.Range(4, 8); i < n; i++ {
		pool = append(pool, cr.Bytes(cr.Range(1, 8)))
	}
	var hashes [][]byte
	for i := 0; i < 3; i++ {
		hashes = append(hashes, cr.Bytes(32))
	}
	// transactions
	var prevs []prevRef
	for _, h := range hashes {
		var ch chainhash.Hash
		copy(ch[:], h)
		prevs = append(prevs, prevRef{ch, 2})
	}
	// decided early because it shapes the rest: a bystander task with a
	// private second filter; in half of those runs a "relay duel" - both
	// filters do nothing but MatchTxAndUpdate on the same one or two
	// transactions (helpers shared between Filter objects are then entered
	// by two filters for equal arguments)
	withBystander := kind == kindLin && nt <= 4 && cr.Chance(1, 4)
	duel := withBystander && cr.Chance(1, 2)
	ntx := cr.Range(1, 4)
	if duel {
		ntx = cr.Range(1, 2)
	}
	if kind == kindComposite {
		ntx = cr.Range(2, 7)
	}
	for i := 0; i < ntx; i++ {
		tx := genTx(cr, pool, prevs, uint32(i))
		prevs = append(prevs, prevRef{tx.TxHash(), len(tx.TxOut)})
		t.Setup = append(t.Setup, kit.Op{K: "tx", D: kit.Hex(serTx(tx))})
	}
	if kind == kindComposite {
		// one block over all transactions, in a drawn order
		order := make([]int64, ntx)
		for i := range order {
			order[i] = int64(i)
		}
		for i := ntx - 1; i > 0; i-- {
			j := cr.Intn(i + 1)
			order[i], order[j] = order[j], order[i]
		}
		t.Setup = append(t.Setup, kit.Op{K: "block", N: order})
		// pre-insert some elements so that scans find something
		for i, n := 0, cr.Range(0, 3); i < n; i++ {
			t.Setup = append(t.Setup, kit.Op{K: "preadd", D: kit.Hex(c20Element(cr, pool))})
		}
	}
	// workload profile
	profile := cr.Intn(4)
	if duel {
		profile = 6
		// both filters know a few of the data items the transactions carry, so
		// that which script's pushes a filter is handed decides its answers
		for i, n := 0, cr.Range(0, 2); i < n; i++ {
			t.Setup = append(t.Setup, kit.Op{K: "preadd", D: kit.Hex(pool[cr.Intn(len(pool))])})
		}
	}
	if nt >= 8 && kind == kindLin && cr.Chance(3, 4) {
		profile = 4 // insert/query only: decidable for many tasks
	}
	if kind == kindLin && cr.Chance(1, 40) {
		// long storm: one task issues hundreds of reloads / unloads while
		// another is inside a single query (wrapping counters, epochs,
		// retry loops); priorities decide, so the query task can stay parked
		// for the whole storm
		profile = 5
		nt = 2
		t.Config["policy"] = sched.PolPCT
		t.Config["pct_d"] = int64(cr.Range(1, 2))
		t.Config["storm"] = int64([]int{255, 256, 257, 511, 512, 513, cr.Range(250, 530)}[cr.Intn(7)])
	}
	t.Config["profile"] = int64(profile)
	for c := 0; c < nt; c++ {
		if profile == 5 {
			var ops []kit.Op
			if c == 0 {
				for i, n := 0, wr.Range(1, 3); i < n; i++ {
					ops = append(ops, e.genOp(wr, kind, 2, 1, nt, nm, ntx, pool, hashes)) // reader ops
				}
			} else {
				for i, n := 0, int(t.Config["storm"]); i < n; i++ {
					if wr.Chance(1, 8) {
						ops = append(ops, kit.Op{K: "unload"})
					} else {
						ops = append(ops, kit.Op{K: "reload", H: wr.Intn(nm)})
					}
				}
			}
			t.Clients = append(t.Clients, ops)
			continue
		}
		nops := wr.Range(1, maxOps)
		var ops []kit.Op
		for i := 0; i < nops; i++ {
			ops = append(ops, e.genOp(wr, kind, profile, c, nt, nm, ntx, pool, hashes))
		}
		t.Clients = append(t.Clients, ops)
	}
	if withBystander {
		// a bystander: one more task using its OWN private filter (other
		// tweak, other shape). Nothing the other tasks do may disturb it, and
		// it must not disturb them: state shared between Filter objects
		// (package-level caches) shows up here.
		t.Setup = append(t.Setup, kit.Op{K: "bymsg", N: []int64{int64(cr.Range(1, 16)), int64(cr.Range(1, 6)), int64(cr.U32()), int64(cr.Intn(3))}})
		var ops []kit.Op
		if duel && wr.Chance(1, 2) {
			ops = append(ops, kit.Op{K: "add", D: kit.Hex(pool[wr.Intn(len(pool))]), S: "by"})
		}
		for i, n := 0, wr.Range(2, 8); i < n; i++ {
			o := e.genOp(wr, kind, 4, 0, nt, nm, ntx, pool, hashes)
			if duel || wr.Chance(2, 5) {
				o = kit.Op{K: "mtx", H: wr.Intn(ntx)}
			}
			o.S = "by"
			ops = append(ops, o)
		}
		t.Clients = append(t.Clients, ops)
	}
	return t, root.Sub("schedule")
}

func c20Element(r *kit.Rng, pool [][]byte) []byte {
	d := pool[r.Intn(len(pool))]
	if r.Chance(1, 2) {
		return scriptElement(r.Intn(skCount), d)
	}
	return d
}

func (e *c20Engine) genOp(r *kit.Rng, kind, profile, c, nt, nm, ntx int, pool, hashes [][]byte) kit.Op {
	// weights: isloaded reload unload add addhash addop match matchop mtx msg scan mblock
	w := []int{3, 2, 2, 6, 2, 3, 6, 3, 5, 2, 0, 0}
	switch profile {
	case 1: // peer session: handler / relay / block server
		switch c % 3 {
		case 0:
			w = []int{4, 3, 2, 8, 1, 2, 0, 0, 0, 1, 0, 0}
		case 1:
			w = []int{4, 0, 0, 0, 0, 0, 2, 1, 10, 0, 0, 0}
		default:
			w = []int{4, 0, 0, 0, 0, 0, 3, 2, 4, 2, 0, 0}
		}
	case 2: // writers vs readers
		if c%2 == 0 {
			w = []int{0, 1, 0, 8, 3, 4, 0, 0, 3, 0, 0, 0}
		} else {
			w = []int{3, 0, 0, 0, 0, 0, 8, 4, 0, 3, 0, 0}
		}
	case 3: // reload storm
		w = []int{2, 8, 5, 4, 1, 1, 4, 1, 3, 3, 0, 0}
	case 6: // relay duel: transaction matching only
		w = []int{1, 0, 0, 1, 0, 0, 0, 0, 14, 0, 0, 0}
	case 4: // insertions and queries only
		w = []int{1, 0, 0, 8, 2, 3, 8, 3, 0, 1, 0, 0}
	}
	if kind == kindComposite {
		if c == 0 || r.Chance(1, 3) {
			w[10], w[11] = 12, 8
		}
		if r.Chance(1, 2) {
			// most composite runs keep the loaded object fixed so the
			// upper-bound bracket applies
			w[1], w[2] = 0, 0
		}
	}
	names := []string{"isloaded", "reload", "unload", "add", "addhash", "addop", "match", "matchop", "mtx", "msg", "scan", "mblock"}
	k := names[r.Pick(w)]
	switch k {
	case "reload":
		return kit.Op{K: k, H: r.Intn(nm)}
	case "add", "match":
		return kit.Op{K: k, D: kit.Hex(c20Element(r, pool))}
	case "addhash":
		return kit.Op{K: k, D: kit.Hex(hashes[r.Intn(len(hashes))])}
	case "addop", "matchop":
		return kit.Op{K: k, D: kit.Hex(hashes[r.Intn(len(hashes))]), N: []int64{int64(r.Intn(3))}}
	case "mtx":
		return kit.Op{K: k, H: r.Intn(ntx)}
	}
	return kit.Op{K: k}
}

func (e *c20Engine) genGCS(t *kit.Trace, cr, wr *kit.Rng, nt, maxOps int) {
	P := cr.Range(0, 32)
	if cr.Chance(1, 2) {
		P = cr.Range(1, 20)
	}
	// keep M/2^P small so unary runs stay short
	M := uint64(1) << uint(P)
	M = M * uint64(cr.Range(1, 64)) / uint64(cr.Range(1, 2))
	if M == 0 {
		M = 1
	}
	n := cr.Range(0, 40)
	if cr.Chance(1, 5) {
		n = cr.Range(0, 300)
	}
	t.Setup = append(t.Setup, kit.Op{K: "gcs", N: []int64{int64(P), int64(M)}, D: kit.Hex(cr.Bytes(16))})
	var items [][]byte
	for i := 0; i < n; i++ {
		it := cr.Bytes(cr.Range(1, 12))
		items = append(items, it)
		t.Setup = append(t.Setup, kit.Op{K: "gitem", D: kit.Hex(it)})
	}
	nq := cr.Range(1, 4)
	for q := 0; q < nq; q++ {
		var parts []string
		qn := cr.Range(0, 6)
		if cr.Chance(1, 12) {
			qn = cr.Range(60, 140) // beyond any small fixed-size scratch area
		}
		for i, m := 0, qn; i < m; i++ {
			if len(items) > 0 && cr.Chance(1, 3) {
				parts = append(parts, kit.Hex(items[cr.Intn(len(items))]))
			} else {
				parts = append(parts, kit.Hex(cr.Bytes(cr.Range(1, 12))))
			}
		}
		t.Setup = append(t.Setup, kit.Op{K: "gq", S: strings.Join(parts, ",")})
	}
	names := []string{"gmatch", "gany", "gzip", "ghash", "gbytes", "gnbytes", "gpbytes", "gnpbytes", "gn", "gp"}
	w := []int{8, 4, 4, 4, 2, 2, 2, 2, 1, 1}
	for c := 0; c < nt; c++ {
		var ops []kit.Op
		for i, m := 0, wr.Range(1, maxOps); i < m; i++ {
			k := names[wr.Pick(w)]
			switch k {
			case "gmatch":
				var d []byte
				if len(items) > 0 && wr.Chance(1, 2) {
					d = items[wr.Intn(len(items))]
				} else {
					d = wr.Bytes(wr.Range(1, 12))
				}
				ops = append(ops, kit.Op{K: k, D: kit.Hex(d)})
			case "gany", "gzip", "ghash":
				ops = append(ops, kit.Op{K: k, H: wr.Intn(nq)})
			default:
				ops = append(ops, kit.Op{K: k})
			}
		}
		t.Clients = append(t.Clients, ops)
	}
}

// ----------------------------------------------------------------- execution

type opRec struct {
	call, ret int64
	out       int64
	done      bool
	invoked   bool
}

type c20World struct {
	kind   int
	shapes []c20Shape
	msgs   []*wire.MsgFilterLoad
	txs    []*wire.MsgTx
	utx    []*bchutil.Tx
	views  []*model.TxView
	block  *wire.MsgBlock
	order  []int
	pre    [][]byte
	init   int
	filter *bloom.Filter
	by     *bloom.Filter // the bystander's private filter (nil if none)
	byMsg  *wire.MsgFilterLoad
	bySh   c20Shape

	gf      *gcs.Filter
	gM      uint64
	gP      uint8
	gkey    [16]byte
	gitems  [][]byte
	gq      [][][]byte
	gexpect [][]int64
}

func buildWorld(t *kit.Trace) (*c20World, error) {
	w := &c20World{kind: int(t.Cfg("kind", 0)), init: 1}
	var gP, gM int64
	hasG := false
	for _, o := range t.Setup {
		switch o.K {
		case "msg":
			n, hf, tw, fl, ok := shapeOK(o)
			if !ok {
				return nil, fmt.Errorf("bad msg shape")
			}
			w.shapes = append(w.shapes, c20Shape{n, hf, tw, fl})
			w.msgs = append(w.msgs, wire.NewMsgFilterLoad(make([]byte, n), hf, tw, wire.BloomUpdateType(fl)))
		case "bymsg":
			n, hf, tw, fl, ok := shapeOK(o)
			if ok {
				w.bySh = c20Shape{n, hf, tw, fl}
				w.byMsg = wire.NewMsgFilterLoad(make([]byte, n), hf, tw, wire.BloomUpdateType(fl))
				w.by = bloom.LoadFilter(w.byMsg)
			}
		case "init":
			w.init = o.H
		case "tx":
			tx, err := deserTx(o.Data())
			if err != nil {
				return nil, err
			}
			w.txs = append(w.txs, tx)
			u := bchutil.NewTx(tx)
			w.utx = append(w.utx, u)
			w.views = append(w.views, model.ViewOf(tx))
		case "block":
			for _, i := range o.N {
				w.order = append(w.order, int(i))
			}
		case "preadd":
			w.pre = append(w.pre, o.Data())
		case "gcs":
			gP, gM = o.Arg(0), o.Arg(1)
			copy(w.gkey[:], o.Data())
			hasG = true
		case "gitem":
			w.gitems = append(w.gitems, o.Data())
		case "gq":
			var q [][]byte
			if o.S != "" {
				for _, p := range strings.Split(o.S, ",") {
					q = append(q, kit.Op{D: p}.Data())
				}
			}
			w.gq = append(w.gq, q)
		}
	}
	if w.kind == kindGCS {
		if !hasG {
			return nil, fmt.Errorf("gcs run without filter")
		}
		f, err := gcs.BuildGCSFilter(uint8(gP), uint64(gM), w.gkey, w.gitems)
		if err != nil {
			return nil, err
		}
		w.gf = f
		w.gM = uint64(gM)
		w.gP = uint8(gP)
		if t.Cfg("gcs_deser", 0) == 1 {
			// the shared filter is one rebuilt from its serialisation
			nb, err := f.NBytes()
			if err != nil {
				return nil, err
			}
			d, err := gcs.FromNBytes(uint8(gP), uint64(gM), nb)
			if err != nil {
				return nil, err
			}
			w.gf = d
		}
		return w, nil
	}
	if len(w.msgs) == 0 {
		return nil, fmt.Errorf("no message object")
	}
	if w.init > 0 && w.init <= len(w.msgs) {
		w.filter = bloom.LoadFilter(w.msgs[w.init-1])
	} else {
		w.init = 0
		w.filter = bloom.LoadFilter(nil)
	}
	for _, d := range w.pre {
		w.filter.Add(d)
	}
	// bchutil.Tx memoises its hash without a lock. Passed only to ONE filter,
	// the memo is protected by that filter's mutex (the code under test hashes
	// inside its critical section), so half of the shared transactions reach
	// the tasks with an empty memo. With a bystander (a second filter) the
	// same Tx would be hashed under two different locks, which is the
	// caller's problem, not the filter's: then every memo is filled first.
	for i, u := range w.utx {
		if w.by != nil || i%2 == 0 {
			u.Hash()
		}
	}
	if w.kind == kindComposite {
		blk := wire.NewMsgBlock(&wire.BlockHeader{Version: 1, Bits: 0x207fffff})
		for _, i := range w.order {
			if i >= 0 && i < len(w.txs) {
				_ = blk.AddTransaction(w.txs[i])
			}
		}
		if len(blk.Transactions) == 0 {
			return nil, fmt.Errorf("empty block")
		}
		w.block = blk
	}
	return w, nil
}

func hashOf(d []byte) *chainhash.Hash {
	var h chainhash.Hash
	copy(h[:], d)
	return &h
}

func b2i(b bool) int64 {
	if b {
		return 1
	}
	return 0
}

// scanResult keeps what a block scan reported (read after the join).
type scanResult struct {
	indices []int
	call    int64
}

func (w *c20World) doOp(o kit.Op, scans *[]scanResult) int64 {
	f := w.filter
	if o.S == "by" {
		if w.by == nil {
			return 0
		}
		f = w.by
	}
	switch o.K {
	case "isloaded":
		return b2i(f.IsLoaded())
	case "reload":
		if o.H >= 0 && o.H < len(w.msgs) {
			f.Reload(w.msgs[o.H])
		}
	case "unload":
		f.Unload()
	case "add":
		f.Add(o.Data())
	case "addhash":
		f.AddHash(hashOf(o.Data()))
	case "addop":
		f.AddOutPoint(wire.NewOutPoint(hashOf(o.Data()), uint32(o.Arg(0))))
	case "match":
		return b2i(f.Matches(o.Data()))
	case "matchop":
		return b2i(f.MatchesOutPoint(wire.NewOutPoint(hashOf(o.Data()), uint32(o.Arg(0)))))
	case "mtx":
		if o.H >= 0 && o.H < len(w.utx) {
			return b2i(f.MatchTxAndUpdate(w.utx[o.H]))
		}
	case "msg":
		m := f.MsgFilterLoad()
		if m == nil {
			return 0
		}
		for i, x := range w.msgs {
			if x == m {
				return int64(i + 1)
			}
		}
		return -1
	case "scan":
		if w.block == nil {
			return 0
		}
		// every task scans its own Block wrapper (Block caches lazily and is
		// not documented as goroutine-safe) over the shared read-only message
		res := bloom.GetMatchedIndices(bchutil.NewBlock(w.block), f)
		var idx []int
		for i, ok := range res {
			if ok {
				idx = append(idx, i)
			}
		}
		sort.Ints(idx)
		*scans = append(*scans, scanResult{indices: idx})
		return int64(len(idx))
	case "mblock":
		if w.block == nil {
			return 0
		}
		_, ids := bloom.NewMerkleBlock(bchutil.NewBlock(w.block), f)
		var idx []int
		for _, i := range ids {
			idx = append(idx, int(i))
		}
		*scans = append(*scans, scanResult{indices: idx})
		return int64(len(idx))
	}
	return 0
}

func scribble(b []byte) {
	for i := range b {
		b[i] ^= 0xa5
	}
}

func sumBytes(b []byte) int64 {
	h := kit.NewHash().Bytes(b)
	return int64(uint64(h) >> 1)
}

// doGCS executes one query; returned slices are hashed and then scribbled
// over, so any aliasing with the filter's internal state shows up as a wrong
// answer (or a race report) in another task.
func (w *c20World) doGCS(o kit.Op) int64 {
	f := w.gf
	enc := func(ok bool, err error) int64 {
		if err != nil {
			return -1
		}
		return b2i(ok)
	}
	q := func() [][]byte {
		if o.H >= 0 && o.H < len(w.gq) {
			// a private copy per call: the query slices belong to the caller
			src := w.gq[o.H]
			cp := make([][]byte, len(src))
			for i := range src {
				cp[i] = append([]byte(nil), src[i]...)
			}
			return cp
		}
		return nil
	}
	switch o.K {
	case "gmatch":
		return enc(f.Match(w.gkey, o.Data()))
	case "gany":
		return enc(f.MatchAny(w.gkey, q()))
	case "gzip":
		return enc(f.ZipMatchAny(w.gkey, q()))
	case "ghash":
		return enc(f.HashMatchAny(w.gkey, q()))
	case "gbytes", "gnbytes", "gpbytes", "gnpbytes":
		var b []byte
		var err error
		switch o.K {
		case "gbytes":
			b, err = f.Bytes()
		case "gnbytes":
			b, err = f.NBytes()
		case "gpbytes":
			b, err = f.PBytes()
		default:
			b, err = f.NPBytes()
		}
		if err != nil {
			return -1
		}
		v := sumBytes(b)
		scribble(b)
		return v
	case "gn":
		return int64(f.N())
	case "gp":
		return int64(f.P())
	}
	return 0
}

func isWrite(k string) bool {
	switch k {
	case "reload", "unload", "add", "addhash", "addop", "mtx", "scan", "mblock":
		return true
	}
	return false
}

func (e *c20Engine) execute(t *kit.Trace, srng *kit.Rng, st *kit.Stats, record bool) *kit.Outcome {
	out := &kit.Outcome{Trace: t}
	w, err := buildWorld(t)
	if err != nil {
		// not executable (possible after shrinking): nothing happens
		st.Runs++
		return out
	}
	nt := len(t.Clients)
	if nt == 0 {
		st.Runs++
		return out
	}
	if nt > 120 {
		nt = 120
	}
	totalOps := 0
	for _, c := range t.Clients[:nt] {
		totalOps += len(c)
	}
	maxSteps := 400 + 120*totalOps
	if w.kind == kindGCS {
		maxSteps = 4000 + 1500*totalOps
	}
	if w.kind == kindComposite {
		maxSteps = 2000 + 800*totalOps
	}
	if t.Cfg(stmtEveryKey, 0) > 0 {
		maxSteps *= 6
	}
	// The bound is the liveness oracle ("every operation returns within B
	// scheduler steps"); it is deliberately an order of magnitude above
	// anything a correct run needs, so that it can only be hit by a task
	// that really spins.
	maxSteps *= 10
	var s *sched.Sched
	if srng != nil {
		s = sched.New(nt, srng, nil, maxSteps)
		s.Policy = int(t.Cfg("policy", sched.PolUniform))
		s.StayNum = int(t.Cfg("stay", 12))
		if s.Policy == sched.PolPCT {
			horizon := 20 + 12*totalOps
			if t.Cfg("profile", 0) == 5 {
				horizon = 40 // the priority change should fall inside the query task's first operations
			}
			s.SetPCT(srng, int(t.Cfg("pct_d", 2)), horizon)
		}
	} else {
		s = sched.New(nt, nil, t.Schedule, maxSteps)
	}
	s.GateSite = bloom.SimSiteBeforeLock
	if t.Cfg("ungated", 0) == 1 {
		// no gate: a task may walk into a held lock for real. A blocking Lock
		// is then handled as a task blocked inside the runtime; a NON-blocking
		// attempt (TryLock) takes its failure branch, which the gate would
		// never let happen.
		s.GateSite = -1
		s.StallSpins = 4000
	}
	s.SparseSites[siteStmt], s.SparseSites[siteStmtGCS], s.SparseSites[siteStmtRepo] = true, true, true
	s.SparseEvery = int(t.Cfg(stmtEveryKey, 1))
	for _, x := range t.Sites {
		if x > 0 && x < sched.MaxSites {
			s.Sites[x] = true
		}
	}
	if record {
		s.EnableLog()
	}

	if w.kind == kindGCS {
		// single-threaded answers first (no scheduler active)
		// They are computed on a TWIN filter built from the same inputs, so
		// the shared filter reaches the tasks untouched: lazily built state
		// inside the "immutable" filter must be met for the first time
		// concurrently (a warm-up on the shared object would hide it). Some
		// runs warm the shared filter up on purpose.
		shared := w.gf
		twin, err := gcs.BuildGCSFilter(w.gP, w.gM, w.gkey, w.gitems)
		if err != nil {
			st.Runs++
			return out
		}
		w.gf = twin
		w.gexpect = make([][]int64, nt)
		for c := 0; c < nt; c++ {
			for _, o := range t.Clients[c] {
				w.gexpect[c] = append(w.gexpect[c], w.doGCS(o))
			}
		}
		w.gf = shared
		if t.Cfg("gcs_warm", 0) == 1 {
			for _, o := range t.Clients[0] {
				w.doGCS(o)
			}
			st.Probe("gcs-filter-warmed-up-before-tasks")
		} else {
			st.Probe("gcs-filter-first-used-concurrently")
		}
	}

	recs := make([][]opRec, nt)
	scans := make([][]scanResult, nt)
	panics := make([]string, nt)
	bodies := make([]func(), nt)
	for c := 0; c < nt; c++ {
		c := c
		ops := t.Clients[c]
		recs[c] = make([]opRec, len(ops))
		bodies[c] = func() {
			defer func() {
				if r := recover(); r != nil {
					panics[c] = fmt.Sprintf("%v\n%s", r, debug.Stack())
					s.Abort()
				}
			}()
			for i, o := range ops {
				s.Yield(siteOpStart, nil)
				r := &recs[c][i]
				r.invoked = true
				r.call = s.Stamp()
				var v int64
				if w.kind == kindGCS {
					v = w.doGCS(o)
				} else {
					v = w.doOp(o, &scans[c])
				}
				r.ret = s.Stamp()
				if (o.K == "scan" || o.K == "mblock") && len(scans[c]) > 0 {
					scans[c][len(scans[c])-1].call = r.call
				}
				r.out = v
				r.done = true
				s.Yield(siteOpEnd, nil)
			}
		}
	}
	e.curTrace = t
	active = s
	sched.SetInRun(true)
	s.Run(bodies)
	if s.Abandoned() == 0 {
		active = nil // (an abandoned task may still wake up and read it)
	}
	// the watchdog stays armed during the post-run checks (they call the
	// real filter from this goroutine)
	defer sched.SetInRun(false)

	t.Schedule = s.Chosen()
	if record {
		t.Log = s.Log()
	}
	out.Steps = s.Steps
	sig := s.Sig
	for _, c := range t.Clients {
		sig = sig.Int(-1)
		for _, o := range c {
			sig = o.Fold(sig)
		}
	}
	out.Sig = uint64(sig)
	st.Runs++
	st.Steps += int64(s.Steps)
	for i, h := range s.SiteHits {
		if h > 0 {
			st.Extra[fmt.Sprintf("site_%02d_decisions", i)] += int64(h)
		}
	}
	st.Extra["preemptions"] += int64(s.Preempts)
	if s.BlockedObs > 0 {
		st.Probe("run-with-task-blocked-on-real-mutex")
		st.Fault("task parked inside the critical section while another waited for the real mutex")
	}
	if s.Preempts > 0 {
		st.Fault("preemption at a simulation point inside an operation")
	}
	if len(e.schedSigs) < 1<<20 {
		e.schedSigs[uint64(s.Sig)] = struct{}{}
	}
	st.Extra["decisions_with_a_task_blocked_on_mutex"] += int64(s.BlockedObs)
	st.Extra[[]string{"runs_linearizability", "runs_block_scan_composite", "runs_gcs"}[w.kind]]++
	for _, c := range t.Clients {
		for _, o := range c {
			st.Op(o.K)
		}
	}

	fail := func(v *kit.Violation) *kit.Outcome {
		if e.known[v.Key] {
			out.Known = append(out.Known, *v)
			return out
		}
		v.Step = s.Steps
		out.Viol = v
		t.Viol = v
		return out
	}

	// 1. race detector
	if rep := e.raceReports(); rep != "" {
		st.Probe("race-report")
		class, harnessOnly := classifyRace(rep)
		if harnessOnly && strings.Count(rep, "props.(*c20World).doGCS()") >= 2 && (strings.Contains(rep, "props.scribble()") || strings.Contains(rep, "props.sumBytes()")) {
			// two client tasks conflict on a buffer that each of them
			// received from the filter as its own: the filter handed out
			// shared memory
			return fail(kit.V("gcs-interference:returned-buffer-shared", "two tasks race on byte slices returned to them by the GCS filter accessors (each caller owns what it is given; the harness scribbles over it on purpose):\n%s", rep))
		}
		if harnessOnly {
			return fail(&kit.Violation{Class: "harness-race", Key: "harness-race", Detail: "race report without a frame of the code under test (framework trouble):\n" + rep})
		}
		return fail(&kit.Violation{Class: class, Key: class, Detail: rep})
	}
	// tasks abandoned inside the runtime (blocked forever in a real Lock)
	// never joined: their memory must not be read; the verdict is the
	// scheduler's
	if s.Abandoned() > 0 {
		st.Probe("deadlock")
		st.Probe("task-abandoned-blocked-in-runtime")
		return fail(kit.V("deadlock", "%d task(s) blocked forever inside a real lock acquisition in the code under test while every other task had finished or was waiting for the same mutex; scheduler step %d", s.Abandoned(), s.Steps))
	}
	if s.RTBlocks > 0 {
		st.Probe("task-blocked-in-runtime-and-resumed")
		st.Extra["runtime_blocks_handled"] += int64(s.RTBlocks)
	}
	// overlap / non-triviality
	type iv struct {
		c        int
		call, rt int64
		write    bool
		k        string
	}
	var ivs []iv
	for c := range recs {
		for i, r := range recs[c] {
			if r.done {
				ivs = append(ivs, iv{c, r.call, r.ret, isWrite(t.Clients[c][i].K), t.Clients[c][i].K})
			}
		}
	}
	overlapTasks := map[int]bool{}
	overlapWrite := false
	for i := range ivs {
		for j := i + 1; j < len(ivs); j++ {
			a, b := ivs[i], ivs[j]
			if a.c != b.c && a.call < b.rt && b.call < a.rt {
				overlapTasks[a.c], overlapTasks[b.c] = true, true
				if a.write || b.write {
					overlapWrite = true
				}
				if (a.k == "reload" || a.k == "unload") && b.call < a.call && a.rt < b.rt || (b.k == "reload" || b.k == "unload") && a.call < b.call && b.rt < a.rt {
					st.Probe("reload-or-unload-inside-another-operation")
					st.Fault("reload/unload landed inside another task's operation")
				}
			}
		}
	}
	out.NonTrivial = len(overlapTasks) >= 2 && (overlapWrite || w.kind == kindGCS)
	if out.NonTrivial {
		st.NonTrivial++
	}

	// panics in the code under test
	for c, p := range panics {
		if p != "" {
			site := kit.PanicSite(p)
			return fail(&kit.Violation{Class: "panic", Key: "panic:" + site, Detail: fmt.Sprintf("task %d panicked: %s", c, trim(p, 2500))})
		}
	}
	// 4. progress
	if s.Deadlock {
		st.Probe("deadlock")
		return fail(kit.V("deadlock", "every unfinished task is waiting for the filter mutex, which stays locked (left locked on some path); scheduler step %d", s.Steps))
	}
	if s.StepBound {
		return fail(kit.V("progress:step-bound-exceeded", "operations did not complete within %d scheduler steps", maxSteps))
	}
	if s.LastMu != nil && sched.MutexLocked(s.LastMu) {
		st.Probe("lock-leaked")
		return fail(kit.V("lock-leaked", "every operation has returned but the filter mutex is still locked: the next caller would block forever"))
	}
	// From here on this goroutine cannot block on the filter (its mutex is
	// free and no task is left), so the watchdog is disarmed: what follows may
	// legitimately wait, e.g. for the history checker's pipe.
	sched.SetInRun(false)

	switch w.kind {
	case kindGCS:
		for c := range recs {
			for i, r := range recs[c] {
				if r.done && r.out != w.gexpect[c][i] {
					return fail(kit.V("gcs-interference:"+t.Clients[c][i].K, "task %d op %d (%s): concurrent answer %d differs from the single-threaded answer %d", c, i, t.Clients[c][i].String(), r.out, w.gexpect[c][i]))
				}
			}
		}
		// the filter itself must be unchanged
		for c := 0; c < nt && c < 1; c++ {
			for i, o := range t.Clients[c] {
				if got := w.doGCS(o); got != w.gexpect[c][i] {
					return fail(kit.V("gcs-interference:state-changed", "after the run, %s answers %d instead of %d", o.String(), got, w.gexpect[c][i]))
				}
			}
		}
	case kindLin:
		if v := e.checkBystander(t, w, recs, st); v != nil {
			return fail(v)
		}
		if !linCheckable(w) {
			// wire-limit shapes: no porcupine (bit arrays too large for its
			// state copies); insert/query-only histories still get the exact
			// interval check
			if v, ok := e.checkMonotone(t, w, recs, takeSnapshot(w), st); ok && v != nil {
				return fail(v)
			}
			break
		}
		snap := takeSnapshot(w)
		if e.lin != nil && !record {
			// batch mode: the history is checked by the companion process
			// (porcupine is too slow under the race detector)
			e.lin.send(t, recs, snap)
			break
		}
		v := e.checkLin(t, w, recs, snap, st, 10*time.Second)
		if v != nil {
			return fail(v)
		}
	case kindComposite:
		if v := e.checkComposite(t, w, scans, recs, st); v != nil {
			return fail(v)
		}
	}
	return out
}

func trim(s string, n int) string {
	if len(s) > n {
		return s[:n]
	}
	return s
}

// ------------------------------------------------------------ linearizability

type linState struct {
	cur  int8
	bits [4]string
}

type linIn struct {
	k    string
	item []byte
	h    int
	snap *linState
}

func (e *c20Engine) linModel(w *c20World) porcupine.Model {
	apply := func(st linState, in *linIn) (linState, int64) {
		msgOf := func() *model.BloomMsg {
			if st.cur < 0 {
				return nil
			}
			sh := w.shapes[st.cur]
			return &model.BloomMsg{Bits: []byte(st.bits[st.cur]), HashFuncs: sh.hf, Tweak: sh.tw, Flags: sh.fl}
		}
		switch in.k {
		case "isloaded":
			return st, b2i(st.cur >= 0)
		case "reload":
			st.cur = int8(in.h)
			return st, 0
		case "unload":
			st.cur = -1
			return st, 0
		case "add", "addhash", "addop":
			if m := msgOf(); m != nil {
				m.Insert(in.item)
				st.bits[st.cur] = string(m.Bits)
			}
			return st, 0
		case "match", "matchop":
			m := msgOf()
			return st, b2i(m != nil && m.Contains(in.item))
		case "mtx":
			m := msgOf()
			if m == nil {
				return st, 0
			}
			b := model.Bloom{Cur: m}
			r := b.MatchAndUpdate(w.views[in.h])
			st.bits[st.cur] = string(m.Bits)
			return st, b2i(r)
		case "msg":
			return st, int64(st.cur + 1)
		}
		return st, 0
	}
	return porcupine.Model{
		Init: func() interface{} {
			st := linState{cur: int8(w.init - 1)}
			for i, sh := range w.shapes {
				st.bits[i] = string(make([]byte, sh.n))
			}
			if st.cur >= 0 {
				m := &model.BloomMsg{Bits: []byte(st.bits[st.cur]), HashFuncs: w.shapes[st.cur].hf, Tweak: w.shapes[st.cur].tw}
				for _, d := range w.pre {
					m.Insert(d)
				}
				st.bits[st.cur] = string(m.Bits)
			}
			return st
		},
		Step: func(state, input, output interface{}) (bool, interface{}) {
			st := state.(linState)
			in := input.(*linIn)
			if in.k == "snapshot" {
				return st == *in.snap, st
			}
			ns, want := apply(st, in)
			return want == output.(int64), ns
		},
		DescribeOperation: func(input, output interface{}) string {
			in := input.(*linIn)
			return fmt.Sprintf("%s(%x,%d) -> %v", in.k, in.item, in.h, output)
		},
	}
}

// checkBystander: the private filter's answers and final bits must equal a
// purely sequential BIP37 evaluation of the bystander's own operations.
func (e *c20Engine) checkBystander(t *kit.Trace, w *c20World, recs [][]opRec, st *kit.Stats) *kit.Violation {
	if w.by == nil {
		return nil
	}
	m := model.NewBloomMsg(w.bySh.n, w.bySh.hf, w.bySh.tw, w.bySh.fl)
	mb := model.Bloom{Cur: m}
	for c := range recs {
		for i, r := range recs[c] {
			o := t.Clients[c][i]
			if o.S != "by" || !r.done {
				continue
			}
			st.Probe("bystander-operation-on-private-filter")
			var want int64
			switch o.K {
			case "isloaded":
				want = 1
			case "msg":
				want = -1 // not one of the shared message objects
			case "add", "addhash":
				mb.Add(o.Data())
			case "addop":
				var h [32]byte
				copy(h[:], o.Data())
				mb.Add(model.OutPointBytes(h, uint32(o.Arg(0))))
			case "match":
				want = b2i(mb.Matches(o.Data()))
			case "matchop":
				var h [32]byte
				copy(h[:], o.Data())
				want = b2i(mb.Matches(model.OutPointBytes(h, uint32(o.Arg(0)))))
			case "mtx":
				if o.H >= 0 && o.H < len(w.views) {
					want = b2i(mb.MatchAndUpdate(w.views[o.H]))
				}
			default:
				continue
			}
			if r.out != want {
				return kit.V("interference:private-filter-disturbed", "a task using its own private filter (tweak %d) got %d from %s where the sequential BIP37 evaluation of its own operations gives %d: another filter's activity disturbed it", w.bySh.tw, r.out, o.String(), want)
			}
		}
	}
	if !bytes.Equal(w.byMsg.Filter, m.Bits) {
		return kit.V("interference:private-filter-disturbed", "the private filter's bits %x differ from the sequential BIP37 evaluation %x of its owner's operations", w.byMsg.Filter, m.Bits)
	}
	return nil
}

func linCheckable(w *c20World) bool {
	if len(w.shapes) > 4 {
		return false
	}
	for _, sh := range w.shapes {
		if sh.n > 64 {
			return false
		}
	}
	return true
}

func takeSnapshot(w *c20World) *linState {
	snap := &linState{cur: -1}
	if m := w.filter.MsgFilterLoad(); m != nil {
		for i, x := range w.msgs {
			if x == m {
				snap.cur = int8(i)
			}
		}
	}
	for i, m := range w.msgs {
		snap.bits[i] = string(m.Filter)
	}
	return snap
}

func (e *c20Engine) checkLin(t *kit.Trace, w *c20World, recs [][]opRec, snap *linState, st *kit.Stats, timeout time.Duration) *kit.Violation {
	if len(recs) > 8 {
		// many tasks: porcupine's search space explodes (2^k orders of
		// commuting insertions). Histories that only insert and query are
		// decided by the interval check instead, which is exact enough for
		// monotone sets; others get a short porcupine budget.
		if v, ok := e.checkMonotone(t, w, recs, snap, st); ok {
			return v
		}
		if timeout > 300*time.Millisecond {
			timeout = 300 * time.Millisecond
		}
	}
	var ops []porcupine.Operation
	var last int64
	for c := range recs {
		for i, r := range recs[c] {
			if !r.done {
				continue
			}
			o := t.Clients[c][i]
			if o.S == "by" {
				continue
			}
			in := &linIn{k: o.K, h: o.H}
			switch o.K {
			case "add", "match", "addhash":
				in.item = o.Data()
			case "addop", "matchop":
				var h [32]byte
				copy(h[:], o.Data())
				in.item = model.OutPointBytes(h, uint32(o.Arg(0)))
			case "reload":
				if o.H < 0 || o.H >= len(w.msgs) {
					continue
				}
			case "mtx":
				if o.H < 0 || o.H >= len(w.views) {
					continue
				}
			case "scan", "mblock":
				continue
			}
			ops = append(ops, porcupine.Operation{ClientId: c, Input: in, Call: r.call, Output: r.out, Return: r.ret})
			if r.ret > last {
				last = r.ret
			}
		}
	}
	// final snapshot, invoked after every other return: the real bytes of
	// every message object and the load state (read after the join)
	ops = append(ops, porcupine.Operation{ClientId: len(recs), Input: &linIn{k: "snapshot", snap: snap}, Call: last + 1, Output: int64(0), Return: last + 2})
	res := porcupine.CheckOperationsTimeout(e.linModel(w), ops, timeout)
	switch res {
	case porcupine.Ok:
		e.porc.ok++
		st.Extra["porcupine_ok"]++
	case porcupine.Unknown:
		e.porc.unknown++
		st.Extra["porcupine_unknown_timeout"]++
	case porcupine.Illegal:
		e.porc.illegal++
		st.Extra["porcupine_illegal"]++
		var sb strings.Builder
		sb.WriteString("the recorded history is not equivalent to any sequential order of the calls (BIP37 model), or the final bits / load state differ from every such order's result\n")
		for c := range recs {
			for i, r := range recs[c] {
				if r.done {
					fmt.Fprintf(&sb, "  task %d: [%d,%d] %s -> %d\n", c, r.call, r.ret, t.Clients[c][i].String(), r.out)
				}
			}
		}
		fmt.Fprintf(&sb, "  final: loaded=%d bits=%x\n", snap.cur, snap.bits)
		return kit.V("nonlinearizable", "%s", sb.String())
	}
	return nil
}

// checkMonotone decides histories made only of insertions and queries on a
// filter whose loaded object never changes: a membership test must report
// present what every insertion that returned before it started makes present,
// and must not report present what even all insertions that started before it
// returned do not make present; the final bits must be the union. ok=false
// when the history contains other operations.
func (e *c20Engine) checkMonotone(t *kit.Trace, w *c20World, recs [][]opRec, snap *linState, st *kit.Stats) (*kit.Violation, bool) {
	type ins struct {
		item      []byte
		call, ret int64
	}
	var adds []ins
	itemOf := func(o kit.Op) []byte {
		if o.K == "addop" || o.K == "matchop" {
			var h [32]byte
			copy(h[:], o.Data())
			return model.OutPointBytes(h, uint32(o.Arg(0)))
		}
		return o.Data()
	}
	for c := range recs {
		for i, r := range recs[c] {
			o := t.Clients[c][i]
			if o.S == "by" {
				continue
			}
			switch o.K {
			case "add", "addhash", "addop":
				if r.invoked {
					ret := r.ret
					if !r.done {
						ret = 1 << 62
					}
					adds = append(adds, ins{itemOf(o), r.call, ret})
				}
			case "match", "matchop", "isloaded", "msg":
			default:
				return nil, false
			}
		}
	}
	st.Extra["monotone_interval_checks"]++
	base := func() *model.BloomMsg {
		if w.init == 0 {
			return nil
		}
		sh := w.shapes[w.init-1]
		m := model.NewBloomMsg(sh.n, sh.hf, sh.tw, sh.fl)
		for _, d := range w.pre {
			m.Insert(d)
		}
		return m
	}
	bad := func(format string, a ...interface{}) (*kit.Violation, bool) {
		return kit.V("nonlinearizable", "many-task history of insertions and queries: "+format, a...), true
	}
	for c := range recs {
		for i, r := range recs[c] {
			if !r.done {
				continue
			}
			o := t.Clients[c][i]
			if o.S == "by" {
				continue
			}
			switch o.K {
			case "isloaded":
				if r.out != b2i(w.init > 0) {
					return bad("task %d IsLoaded() = %d", c, r.out)
				}
			case "msg":
				if r.out != int64(w.init) {
					return bad("task %d MsgFilterLoad() returned object %d, loaded is %d", c, r.out, w.init)
				}
			case "match", "matchop":
				lo, hi := base(), base()
				if lo == nil {
					if r.out != 0 {
						return bad("task %d: unloaded filter matched %s", c, o.String())
					}
					continue
				}
				for _, a := range adds {
					if a.ret < r.call {
						lo.Insert(a.item)
					}
					if a.call < r.ret {
						hi.Insert(a.item)
					}
				}
				it := itemOf(o)
				if lo.Contains(it) && r.out != 1 {
					return bad("task %d: %s reported absent although insertions that had already returned make it present (lost insertion)", c, o.String())
				}
				if !hi.Contains(it) && r.out != 0 {
					return bad("task %d: %s reported present although no insertion started so far makes it present", c, o.String())
				}
			}
		}
	}
	if int(snap.cur) != w.init-1 {
		return bad("final load state %d, expected %d", snap.cur, w.init-1)
	}
	if fin := base(); fin != nil {
		for _, a := range adds {
			if a.ret < 1<<62 {
				fin.Insert(a.item)
			}
		}
		if snap.bits[w.init-1] != string(fin.Bits) {
			return bad("final bits %x differ from the union of all insertions %x (lost update)", snap.bits[w.init-1], fin.Bits)
		}
	}
	return nil, true
}

// checkComposite: block scans are not documented atomic; what must hold is
// (besides race freedom and progress) that nothing is reported that the
// final filter state does not match, when the loaded object never changed.
func (e *c20Engine) checkComposite(t *kit.Trace, w *c20World, scans [][]scanResult, recs [][]opRec, st *kit.Stats) *kit.Violation {
	for _, c := range t.Clients {
		for _, o := range c {
			if o.K == "reload" || o.K == "unload" {
				return nil
			}
		}
	}
	if w.init == 0 {
		return nil
	}
	sh := w.shapes[w.init-1]
	final := w.msgs[w.init-1]
	for c := range scans {
		for _, sc := range scans[c] {
			st.Probe("block-scan-bracket-checked")
			// lower bound: everything relevant to the items whose insertion had
			// returned before the scan was invoked must be reported, whatever
			// the other tasks did meanwhile (bits only grow)
			items := map[string]bool{}
			for _, d := range w.pre {
				items[string(d)] = true
			}
			for c2 := range recs {
				for i, r := range recs[c2] {
					if !r.done || r.ret >= sc.call {
						continue
					}
					switch o := t.Clients[c2][i]; o.K {
					case "add", "addhash":
						items[string(o.Data())] = true
					case "addop":
						var h [32]byte
						copy(h[:], o.Data())
						items[string(model.OutPointBytes(h, uint32(o.Arg(0))))] = true
					}
				}
			}
			L, _ := exactClosure(items, w.block.Transactions, sh.fl)
			rep := map[int]bool{}
			for _, i := range sc.indices {
				rep[i] = true
			}
			for i := range w.block.Transactions {
				if L[i] && !rep[i] {
					return kit.V("composite:relevant-transaction-missed", "task %d: a block scan concurrent with other operations did not report transaction %d, which is relevant to items inserted before the scan started", c, i)
				}
			}
			if len(L) > 0 {
				st.Probe("concurrent-block-scan-with-relevant-transactions")
			}
			for _, i := range sc.indices {
				if i < 0 || i >= len(w.block.Transactions) {
					return kit.V("composite:index-out-of-range", "scan reported index %d of a %d-transaction block", i, len(w.block.Transactions))
				}
				m := &model.BloomMsg{Bits: append([]byte(nil), final.Filter...), HashFuncs: sh.hf, Tweak: sh.tw, Flags: sh.fl}
				b := model.Bloom{Cur: m}
				if !b.MatchAndUpdate(model.ViewOf(w.block.Transactions[i])) {
					return kit.V("composite:reported-but-unmatched", "task %d: block scan reported transaction %d, which the final filter state does not match", c, i)
				}
			}
		}
	}
	return nil
}

// ------------------------------------------------------------------ race log

func (e *c20Engine) raceReports() string {
	if e.racePath == "" {
		return ""
	}
	fi, err := os.Stat(e.racePath)
	if err != nil || fi.Size() <= e.raceOff {
		return ""
	}
	b, err := os.ReadFile(e.racePath)
	if err != nil {
		return ""
	}
	rep := string(b[e.raceOff:])
	e.raceOff = int64(len(b))
	if !strings.Contains(rep, "DATA RACE") {
		return ""
	}
	return rep
}

// classifyRace names a report by the innermost function of the code under
// test in each of the two conflicting accesses.
func classifyRace(rep string) (class string, harnessOnly bool) {
	lines := strings.Split(rep, "\n")
	var accs []string
	for i := 0; i < len(lines) && len(accs) < 2; i++ {
		l := lines[i]
		if strings.HasPrefix(l, "Read at ") || strings.HasPrefix(l, "Write at ") || strings.HasPrefix(l, "Previous read at ") || strings.HasPrefix(l, "Previous write at ") {
			fn := ""
			first := ""
			for j := i + 1; j < len(lines) && strings.TrimSpace(lines[j]) != ""; j++ {
				f := strings.TrimSpace(lines[j])
				if strings.HasPrefix(lines[j], "      ") {
					continue // file:line
				}
				if first == "" {
					first = f
				}
				if strings.HasPrefix(f, "github.com/gcash/bchutil") {
					fn = f
					break
				}
			}
			if fn == "" {
				accs = append(accs, "outside:"+stripArgs(first))
			} else {
				accs = append(accs, stripArgs(strings.TrimPrefix(fn, "github.com/gcash/bchutil")))
			}
		}
	}
	harnessOnly = true
	for _, a := range accs {
		if !strings.HasPrefix(a, "outside:") {
			harnessOnly = false
		}
	}
	sort.Strings(accs)
	return "race:" + strings.Join(accs, "|"), harnessOnly
}

func stripArgs(f string) string {
	if i := strings.LastIndex(f, "("); i > 0 && strings.HasSuffix(f, ")") {
		return f[:i]
	}
	return f
}

// -------------------------------------------------------------- engine glue

func (e *c20Engine) Run(seed uint64, st *kit.Stats) *kit.Outcome {
	t, srng := e.generate(seed)
	return e.execute(t, srng, st, false)
}

func (e *c20Engine) Replay(t *kit.Trace, st *kit.Stats) *kit.Outcome {
	c := t.Clone()
	c.Viol = nil
	c.Log = nil
	return e.execute(c, nil, st, true)
}

// Simplify: fewer preemptions (replace choices by "stay"), shorter schedule,
// fewer sites.
func (e *c20Engine) Simplify(t *kit.Trace) []*kit.Trace {
	var out []*kit.Trace
	if n := len(t.Schedule); n > 0 {
		c := t.Clone()
		c.Schedule = c.Schedule[:n/2]
		out = append(out, c)
		// blank out runs of choices
		for _, span := range []int{n / 2, n / 4, n / 8, 1} {
			if span < 1 {
				continue
			}
			for s := 0; s < n; s += span {
				c := t.Clone()
				changed := false
				for i := s; i < s+span && i < n; i++ {
					if c.Schedule[i] != -1 {
						c.Schedule[i] = -1
						changed = true
					}
				}
				if changed {
					out = append(out, c)
				}
			}
			if len(out) > 60 {
				break
			}
		}
	}
	// unused set-up: transactions no operation refers to, pre-insertions
	if t.Cfg("kind", 0) == kindLin {
		txNo := -1
		for j, o := range t.Setup {
			switch o.K {
			case "tx":
				txNo++
				used := false
				for _, cl := range t.Clients {
					for _, op := range cl {
						if op.K == "mtx" && op.H == txNo {
							used = true
						}
					}
				}
				if !used {
					c := t.Clone()
					c.Setup = append(c.Setup[:j:j], c.Setup[j+1:]...)
					for ci := range c.Clients {
						for oi := range c.Clients[ci] {
							if c.Clients[ci][oi].K == "mtx" && c.Clients[ci][oi].H > txNo {
								c.Clients[ci][oi].H--
							}
						}
					}
					out = append(out, c)
				}
			case "preadd", "bymsg":
				c := t.Clone()
				c.Setup = append(c.Setup[:j:j], c.Setup[j+1:]...)
				out = append(out, c)
			}
		}
	}
	for i := range t.Sites {
		if len(t.Sites) > 1 {
			c := t.Clone()
			c.Sites = append(c.Sites[:i:i], c.Sites[i+1:]...)
			out = append(out, c)
		}
	}
	return out
}

// Extra reports engine-level counters.
func (e *c20Engine) Extra() map[string]interface{} {
	return map[string]interface{}{"distinct_interleavings_sum_over_workers": float64(len(e.schedSigs))}
}

var _ = bytes.Equal
