package props

import (
	"bytes"
	"fmt"
	"math/big"
	"reflect"
	"unsafe"

	"github.com/gcash/bchd/chaincfg"
	"github.com/gcash/bchutil/hdkeychain"

	"verif/sim/kit"
	"verif/sim/model"
)

// C15: a pool of extended keys under a drawn history of derivations,
// neutering, network changes, parsing and - as the fault - Zero of an
// arbitrary live key at an arbitrary point. Every live key is observed after
// every step and must equal its independent BIP32 model value.

type c15Net struct {
	name string
	p    *chaincfg.Params
	priv [4]byte
	pub  [4]byte
}

// Version bytes are written out here (not read from chaincfg at check time)
// so that a write through an aliased version slice into the global network
// parameters cannot move both sides of the comparison.
var c15Nets = []c15Net{
	{"mainnet", &chaincfg.MainNetParams, [4]byte{0x04, 0x88, 0xad, 0xe4}, [4]byte{0x04, 0x88, 0xb2, 0x1e}},
	{"testnet3", &chaincfg.TestNet3Params, [4]byte{0x04, 0x35, 0x83, 0x94}, [4]byte{0x04, 0x35, 0x87, 0xcf}},
	{"regtest", &chaincfg.RegressionNetParams, [4]byte{0x04, 0x35, 0x83, 0x94}, [4]byte{0x04, 0x35, 0x87, 0xcf}},
	{"simnet", &chaincfg.SimNetParams, [4]byte{0x04, 0x20, 0xb9, 0x00}, [4]byte{0x04, 0x20, 0xbd, 0x3a}},
}

// A network the application registers itself (chaincfg.Register): the
// library must serve it like the built-in ones.
var c15Custom = func() *chaincfg.Params {
	p := chaincfg.SimNetParams // copy
	p.Name = "verifnet"
	p.Net = 0x76657266
	p.HDPrivateKeyID = [4]byte{0x04, 0x99, 0xaa, 0x01}
	p.HDPublicKeyID = [4]byte{0x04, 0x99, 0xaa, 0x02}
	p.CashAddressPrefix = "verif"
	return &p
}()

func init() {
	if err := chaincfg.Register(c15Custom); err == nil {
		c15Nets = append(c15Nets, c15Net{"verifnet (registered by the harness)", c15Custom, c15Custom.HDPrivateKeyID, c15Custom.HDPublicKeyID})
	}
}

func selfTestNets() error {
	for _, n := range c15Nets {
		if n.p.HDPrivateKeyID != n.priv || n.p.HDPublicKeyID != n.pub {
			return fmt.Errorf("network %s: HD version bytes %x/%x differ from the harness table %x/%x", n.name, n.p.HDPrivateKeyID, n.p.HDPublicKeyID, n.priv, n.pub)
		}
	}
	return nil
}

type c15Handle struct {
	real   *hdkeychain.ExtendedKey
	mod    *model.XKey // nil once zeroed
	origin string
	parent int // handle it was obtained from (-1 none)
}

type c15 struct {
	st       *kit.Stats
	hs       []*c15Handle
	maxSteps int
	steps    int
	w        []int
	probeIdx uint32
	stepNo   int

	zeroWithRelatedLive bool
	observedAfter       bool
	observe             int
	pendingZeroLed      []int64
	obsRng              *kit.Rng
	final               bool
}

func (s *c15) Start(r *kit.Rng, cfg map[string]int64) {
	if r == nil {
		s.probeIdx = uint32(cfg["probe_child"])
		s.observe = int(cfg["observe"])
		s.obsRng = kit.NewRng(uint64(cfg["observe_seed"]))
		return
	}
	s.maxSteps = r.Range(3, 40*kit.Depth)
	if r.Chance(1, 3) {
		s.maxSteps = r.Range(3, 10)
	}
	// weights: master parse newext child neuter setnet zero string ecpub ecpriv address childzeroed
	s.w = []int{3, 3, 2, 8, 6, 3, 5, 1, 1, 1, 1, 1}
	for i := range s.w {
		if r.Chance(1, 4) {
			s.w[i] = 0
		}
	}
	if s.w[6] == 0 && r.Chance(3, 4) {
		s.w[6] = 4
	}
	s.probeIdx = []uint32{0, 1, 2, 7, 1 << 30}[r.Intn(5)]
	cfg["probe_child"] = int64(s.probeIdx)
	// observing a key can itself fill lazily computed state, so not every
	// run observes everything after every step: 0 = every key every step,
	// 1 = each key with probability 1/4 per step, 2 = only at the end
	s.observe = []int{0, 0, 1, 1, 2}[r.Intn(5)]
	cfg["observe"] = int64(s.observe)
	cfg["observe_seed"] = int64(r.U32())
	s.obsRng = kit.NewRng(uint64(cfg["observe_seed"]))
	cfg["max_steps"] = int64(s.maxSteps)
}

func (s *c15) live() []int {
	var l []int
	for i, h := range s.hs {
		if h.mod != nil {
			l = append(l, i)
		}
	}
	return l
}

func (s *c15) Gen(r *kit.Rng) (kit.Op, bool) {
	if s.steps == s.maxSteps {
		s.steps++
		return kit.Op{K: "observe-all"}, true
	}
	if s.steps > s.maxSteps {
		return kit.Op{}, false
	}
	s.steps++
	live := s.live()
	if len(live) == 0 || len(s.hs) == 0 {
		return s.genMaster(r), true
	}
	pick := func() int { return live[r.Intn(len(live))] }
	if len(s.pendingZeroLed) > 0 && len(s.hs) < 10 {
		idx := s.pendingZeroLed[0]
		s.pendingZeroLed = s.pendingZeroLed[1:]
		// the master just created is the last handle
		return kit.Op{K: "child", H: len(s.hs) - 1, N: []int64{idx}}, true
	}
	for {
		k := r.Pick(s.w)
		if len(s.hs) >= 10 && k <= 4 && k != 4 {
			// pool full: no new handles except through neuter of a public key
			if r.Chance(1, 2) {
				k = 6
			} else {
				k = 5
			}
		}
		switch k {
		case 0:
			return s.genMaster(r), true
		case 1:
			return kit.Op{K: "parse", H: pick()}, true
		case 2:
			// sometimes at the depth limit, so that the refusal to derive is reached
			d := int64(-1)
			if r.Chance(1, 4) {
				d = int64([]int{254, 255}[r.Intn(2)])
			}
			if r.Chance(1, 3) {
				return kit.Op{K: "parse_model", H: pick()}, true
			}
			if r.Chance(1, 4) {
				// the public key with the opposite parity (-P): same X
				// coordinate, a different key
				return kit.Op{K: "newext", H: pick(), N: []int64{d, 1}}, true
			}
			return kit.Op{K: "newext", H: pick(), N: []int64{d}}, true
		case 3:
			idx := []uint32{0, 1, 2, 1<<31 - 1, 1 << 31, 1<<31 + 1, 0xffffffff, r.U32(), uint32(r.Intn(5))}[r.Intn(9)]
			return kit.Op{K: "child", H: pick(), N: []int64{int64(idx)}}, true
		case 4:
			if len(s.hs) >= 10 {
				continue
			}
			return kit.Op{K: "neuter", H: pick()}, true
		case 5:
			return kit.Op{K: "setnet", H: pick(), N: []int64{int64(r.Intn(len(c15Nets)))}}, true
		case 6:
			return kit.Op{K: "zero", H: pick()}, true
		case 7:
			return kit.Op{K: "string", H: r.Intn(len(s.hs))}, true
		case 8:
			return kit.Op{K: "ecpub", H: pick()}, true
		case 9:
			return kit.Op{K: "ecpriv", H: r.Intn(len(s.hs))}, true
		case 10:
			return kit.Op{K: "address", H: pick(), N: []int64{int64(r.Intn(len(c15Nets)))}}, true
		case 11:
			// use of a zeroed key: must fail or answer, never panic
			for i, h := range s.hs {
				if h.mod == nil {
					return kit.Op{K: "usezeroed", H: i, N: []int64{int64([]uint32{0, 1 << 31}[r.Intn(2)])}}, true
				}
			}
		}
	}
}

// c15ZeroLed lists (seed, index) pairs whose child PRIVATE key begins with
// two zero bytes; found with the BIP32 model alone (sim/cmd/findkeys).
var c15ZeroLed = []struct {
	seed string
	idx  uint32
}{
	{"verif distinguished seed 00....", 2147487600},
	{"verif distinguished seed 01....", 176735},
	{"verif distinguished seed 02....", 2147530650},
	{"verif distinguished seed 03....", 2496},
	{"verif distinguished seed 04....", 2147534406},
	{"verif distinguished seed 05....", 35017},
}

func (s *c15) genMaster(r *kit.Rng) kit.Op {
	if r.Chance(1, 25) {
		z := c15ZeroLed[r.Intn(len(c15ZeroLed))]
		s.pendingZeroLed = append(s.pendingZeroLed, int64(z.idx))
		return kit.Op{K: "master", D: kit.Hex([]byte(z.seed)), N: []int64{0}}
	}
	n := []int{16, 32, 64, r.Range(16, 64)}[r.Intn(4)]
	return kit.Op{K: "master", D: kit.Hex(r.Bytes(n)), N: []int64{int64(r.Intn(len(c15Nets)))}}
}

func (s *c15) get(i int) *c15Handle {
	if i < 0 || i >= len(s.hs) {
		return nil
	}
	return s.hs[i]
}

// sliceField reads an unexported []byte field of the real key (for the
// erasure check only; never written).
func sliceField(k *hdkeychain.ExtendedKey, name string) []byte {
	f := reflect.ValueOf(k).Elem().FieldByName(name)
	if !f.IsValid() || f.Kind() != reflect.Slice {
		return nil
	}
	return *(*[]byte)(unsafe.Pointer(f.UnsafeAddr()))
}

// allSliceFields reads, by position, every buffer reachable from the real
// key's fields that can hold key material: []byte fields, word slices, and
// the word buffers of *big.Int / big.Int fields (a memoised scalar).
func allSliceFields(k *hdkeychain.ExtendedKey) map[string][]byte {
	out := map[string][]byte{}
	v := reflect.ValueOf(k).Elem()
	words := func(name string, b *big.Int) {
		if b == nil {
			return
		}
		w := b.Bits()
		if len(w) == 0 {
			return
		}
		w = w[:cap(w)]
		out[name+" (big.Int words)"] = unsafe.Slice((*byte)(unsafe.Pointer(&w[0])), len(w)*int(unsafe.Sizeof(w[0])))
	}
	for i := 0; i < v.NumField(); i++ {
		f := v.Field(i)
		name := v.Type().Field(i).Name
		switch {
		case f.Kind() == reflect.Slice && f.Type().Elem().Kind() == reflect.Uint8:
			out[name] = *(*[]byte)(unsafe.Pointer(f.UnsafeAddr()))
		case f.Kind() == reflect.Slice && (f.Type().Elem().Kind() == reflect.Uint || f.Type().Elem().Kind() == reflect.Uint64 || f.Type().Elem().Kind() == reflect.Uint32 || f.Type().Elem().Kind() == reflect.Uintptr):
			if f.Len() > 0 {
				n := f.Len() * int(f.Type().Elem().Size())
				out[name+" (words)"] = unsafe.Slice((*byte)(unsafe.Pointer(f.Pointer())), n)
			}
		case f.Type() == reflect.TypeOf((*big.Int)(nil)):
			words(name, *(**big.Int)(unsafe.Pointer(f.UnsafeAddr())))
		case f.Type() == reflect.TypeOf(big.Int{}):
			words(name, (*big.Int)(unsafe.Pointer(f.UnsafeAddr())))
		}
	}
	return out
}

func isHDVersion(b []byte) bool {
	for _, n := range c15Nets {
		if bytes.Equal(b, n.priv[:]) || bytes.Equal(b, n.pub[:]) {
			return true
		}
	}
	return false
}

func lenMap(m map[string][]byte) map[string]int64 {
	o := map[string]int64{}
	for k, v := range m {
		o[k] = int64(len(v))
	}
	return o
}

func allZero(b []byte) bool {
	for _, c := range b {
		if c != 0 {
			return false
		}
	}
	return true
}

func (s *c15) related(a, b int) string {
	// how handle b relates to a (for probes and the violation key)
	ha, hb := s.hs[a], s.hs[b]
	switch {
	case hb.parent == a:
		return hb.origin + "-of-it"
	case ha.parent == b:
		return "source-of-its-" + ha.origin
	case ha.parent >= 0 && ha.parent == hb.parent:
		return "sibling"
	}
	return ""
}

func (s *c15) add(real *hdkeychain.ExtendedKey, mod *model.XKey, origin string, parent int) {
	s.hs = append(s.hs, &c15Handle{real: real, mod: mod, origin: origin, parent: parent})
}

func (s *c15) Apply(o kit.Op) *kit.Violation {
	s.stepNo++
	h := s.get(o.H)
	needLive := func() bool { return h != nil && h.mod != nil }
	switch o.K {
	case "master":
		ni := int(o.Arg(0))
		if ni < 0 || ni >= len(c15Nets) || len(s.hs) >= 12 {
			return nil
		}
		seed := o.Data()
		mk, merr := model.Master(seed, c15Nets[ni].priv)
		rk, rerr := hdkeychain.NewMaster(append([]byte(nil), seed...), c15Nets[ni].p)
		if (merr == nil) != (rerr == nil) {
			return kit.V("model-mismatch:NewMaster", "NewMaster error %v, model error %v", rerr, merr)
		}
		if rerr == nil {
			s.add(rk, mk, "master", -1)
		}
	case "parse":
		if !needLive() || len(s.hs) >= 12 {
			return nil
		}
		str := h.real.String()
		rk, err := hdkeychain.NewKeyFromString(str)
		if err != nil {
			return kit.V("model-mismatch:NewKeyFromString", "the library's own string %q does not parse: %v", str, err)
		}
		s.add(rk, h.mod.Clone(), "parsed-copy", o.H)
	case "newext":
		if !needLive() || len(s.hs) >= 12 {
			return nil
		}
		m := h.mod
		// fresh copies of every field: any sharing afterwards is the library's doing
		nm := m.Clone()
		if len(o.N) > 0 && o.Arg(0) >= 0 && o.Arg(0) <= 255 {
			nm.Depth = uint8(o.Arg(0))
			if nm.Depth == 255 {
				s.st.Probe("key-at-depth-255")
			}
		}
		if o.Arg(1) == 1 && !nm.Private && len(nm.Key) == 33 {
			nm.Key = append([]byte(nil), nm.Key...)
			nm.Key[0] ^= 1
			s.st.Probe("public-key-with-negated-point")
		}
		rk := hdkeychain.NewExtendedKey(append([]byte(nil), nm.Version[:]...), append([]byte(nil), nm.Key...), append([]byte(nil), nm.ChainCode[:]...), append([]byte(nil), nm.ParentFP[:]...), nm.Depth, nm.ChildNum, nm.Private)
		s.add(rk, nm, "field-copy", o.H)
	case "parse_model":
		// parse the MODEL's serialisation of a live key: an independent
		// source for NewKeyFromString
		if !needLive() || len(s.hs) >= 12 {
			return nil
		}
		rk, err := hdkeychain.NewKeyFromString(h.mod.String())
		if err != nil {
			return kit.V("model-mismatch:NewKeyFromString", "the BIP32 model's serialisation %q of a live key does not parse: %v", h.mod.String(), err)
		}
		s.st.Probe("parsed-from-model-string")
		s.add(rk, h.mod.Clone(), "parsed-copy", o.H)
	case "child":
		if !needLive() || len(s.hs) >= 12 {
			return nil
		}
		i := uint32(o.Arg(0))
		rk, rerr := h.real.Child(i)
		mk, merr := h.mod.Child(i)
		if (rerr == nil) != (merr == nil) {
			return kit.V("model-mismatch:Child", "Child(%d) of handle %d: error %v, model error %v", i, o.H, rerr, merr)
		}
		if rerr == nil {
			s.add(rk, mk, "child", o.H)
			if mk.Private && mk.Key[0] == 0 {
				s.st.Probe("child-scalar-with-leading-zero-byte")
				if mk.Key[1] == 0 {
					s.st.Probe("child-scalar-with-two-leading-zero-bytes")
				}
			}
		} else if merr == model.ErrModelHardenedFromPublic {
			s.st.Probe("hardened-from-public-refused")
		} else if merr == model.ErrModelDepth {
			s.st.Probe("derivation-beyond-depth-255-refused")
		}
	case "neuter":
		if !needLive() || len(s.hs) >= 12 {
			return nil
		}
		rk, err := h.real.Neuter()
		if err != nil {
			return kit.V("model-mismatch:Neuter", "Neuter failed: %v", err)
		}
		if !h.mod.Private {
			// documented: the same key is returned for an already-public key
			if rk != h.real {
				s.st.Probe("neuter-of-public-returned-new-object")
				s.add(rk, h.mod.Clone(), "neutered-twin", o.H)
			} else {
				s.st.Probe("neuter-of-public-returns-receiver")
			}
			return nil
		}
		if rk == h.real {
			return kit.V("independence:neuter-returned-private-receiver", "Neuter of a private key returned the private key object itself")
		}
		pub := h.mod.Version
		for _, n := range c15Nets {
			if n.priv == h.mod.Version {
				pub = n.pub
			}
		}
		s.add(rk, h.mod.Neuter(pub), "neutered-twin", o.H)
	case "setnet":
		ni := int(o.Arg(0))
		if !needLive() || ni < 0 || ni >= len(c15Nets) {
			return nil
		}
		h.real.SetNet(c15Nets[ni].p)
		if h.mod.Private {
			h.mod.Version = c15Nets[ni].priv
		} else {
			h.mod.Version = c15Nets[ni].pub
		}
		s.st.Probe("setnet")
	case "zero":
		if !needLive() {
			return nil
		}
		// capture the backing arrays, zero, then inspect them
		bufs := map[string][]byte{}
		for _, f := range []string{"key", "pubKey", "chainCode", "parentFP"} {
			bufs[f] = sliceField(h.real, f)
		}
		// name-independent capture as well (field names are not part of the
		// property): every byte-slice field except the one holding the
		// network version bytes, which Zero is not required to wipe
		extra := allSliceFields(h.real)
		for name, b := range extra {
			if _, named := bufs[name]; named {
				continue
			}
			if len(b) == 4 && isHDVersion(b) {
				continue // network version bytes (of any kind): not key material
			}
			bufs["field "+name] = b
		}
		for _, j := range s.live() {
			if j != o.H {
				if rel := s.related(o.H, j); rel != "" {
					s.zeroWithRelatedLive = true
					s.st.Probe("zero-with-live-" + rel)
				}
			}
		}
		h.real.Zero()
		h.mod = nil
		s.st.Fault("zero")
		for _, f := range kit.SortedKeys(lenMap(bufs)) {
			if !allZero(bufs[f]) {
				return kit.VK("erasure:buffer-not-zeroed", "erasure:buffer-not-zeroed:"+f, "after Zero() the buffer that held %s still contains %x", f, bufs[f])
			}
		}
		if len(bufs["key"]) == 0 && len(extra) == 0 {
			// the unexported field names are not part of the property: after a
			// refactoring the buffers may simply not be inspectable; the
			// black-box erasure checks (zeroed marker, no private key) go on
			s.st.Probe("erasure-buffers-not-inspectable")
		} else {
			s.st.Probe("erasure-buffers-inspected")
		}
	case "string":
		if h == nil {
			return nil
		}
		_ = h.real.String() // compared in Check
	case "ecpub":
		if !needLive() {
			return nil
		}
		if _, err := h.real.ECPubKey(); err != nil {
			return kit.V("model-mismatch:ECPubKey", "ECPubKey failed on a live key: %v", err)
		}
	case "ecpriv":
		if h == nil {
			return nil
		}
		pk, err := h.real.ECPrivKey()
		switch {
		case h.mod == nil:
			if err == nil {
				return kit.V("erasure:zeroed-key-yields-private-key", "ECPrivKey succeeded on a zeroed key")
			}
		case h.mod.Private:
			if err != nil {
				return kit.V("model-mismatch:ECPrivKey", "ECPrivKey failed on a live private key: %v", err)
			}
			if !bytes.Equal(leftPad32(pk.D.Bytes()), leftPad32(h.mod.Key)) {
				return kit.V("independence:private-scalar-changed", "ECPrivKey of handle %d returns another scalar than the model's", o.H)
			}
		default:
			if err == nil {
				return kit.V("model-mismatch:ECPrivKey", "ECPrivKey succeeded on a public key")
			}
		}
	case "address":
		ni := int(o.Arg(0))
		if !needLive() || ni < 0 || ni >= len(c15Nets) {
			return nil
		}
		a, err := h.real.Address(c15Nets[ni].p)
		if err != nil {
			return kit.V("model-mismatch:Address", "Address failed: %v", err)
		}
		if !bytes.Equal(a.ScriptAddress(), model.Hash160(h.mod.PubKey())) {
			return kit.V("independence:address-changed", "Address of handle %d is not HASH160 of the model's public key", o.H)
		}
		if !a.IsForNet(c15Nets[ni].p) {
			return kit.V("independence:address-changed", "Address(%s) of handle %d is not an address of that network", c15Nets[ni].name, o.H)
		}
	case "observe-all":
		s.final = true
	case "usezeroed":
		if h == nil || h.mod != nil {
			return nil
		}
		s.st.Probe("use-of-zeroed-key")
		_, _ = h.real.Child(uint32(o.Arg(0)))
		h.real.SetNet(c15Nets[int(o.Arg(0)>>31)&1].p) // a mutating call on a zeroed key
		_, _ = h.real.Neuter()
		_ = h.real.IsPrivate()
		_ = h.real.Depth()
		_, _ = h.real.ECPubKey()
	}
	return nil
}

func leftPad32(b []byte) []byte {
	if len(b) >= 32 {
		return b
	}
	out := make([]byte, 32)
	copy(out[32-len(b):], b)
	return out
}

func (s *c15) describe(i int) string {
	h := s.hs[i]
	o := h.origin
	if h.parent >= 0 {
		o += fmt.Sprintf(" of handle %d", h.parent)
	}
	return fmt.Sprintf("handle %d (%s)", i, o)
}

// Check observes every handle after every step.
func (s *c15) Check() *kit.Violation {
	liveN := 0
	for i, h := range s.hs {
		if !s.final && h.mod != nil {
			switch s.observe {
			case 1:
				if !s.obsRng.Chance(1, 4) {
					continue
				}
			case 2:
				continue
			}
		}
		if h.mod == nil {
			if got := h.real.String(); got != "zeroed extended key" {
				return kit.V("erasure:not-reported-zeroed", "%s was zeroed but String() = %q", s.describe(i), got)
			}
			if _, err := h.real.ECPrivKey(); err == nil {
				return kit.V("erasure:zeroed-key-yields-private-key", "%s was zeroed but ECPrivKey succeeds", s.describe(i))
			}
			continue
		}
		liveN++
		m := h.mod
		bad := func(what, format string, a ...interface{}) *kit.Violation {
			rel := "unrelated"
			if h.parent >= 0 {
				rel = h.origin
			}
			return kit.VK("independence-lost:"+what, "independence-lost:"+what+"|victim="+rel, "%s no longer behaves as obtained: "+format, append([]interface{}{s.describe(i)}, a...)...)
		}
		if got, want := h.real.String(), m.String(); got != want {
			return bad("String", "String() = %s, BIP32 model %s", got, want)
		}
		if h.real.IsPrivate() != m.Private {
			return bad("IsPrivate", "IsPrivate() = %v", h.real.IsPrivate())
		}
		if h.real.Depth() != m.Depth {
			return bad("Depth", "Depth() = %d, model %d", h.real.Depth(), m.Depth)
		}
		if got, want := h.real.ParentFingerprint(), uint32(m.ParentFP[0])<<24|uint32(m.ParentFP[1])<<16|uint32(m.ParentFP[2])<<8|uint32(m.ParentFP[3]); got != want {
			return bad("ParentFingerprint", "ParentFingerprint() = %08x, model %08x", got, want)
		}
		for _, n := range c15Nets {
			want := m.Version == n.priv || m.Version == n.pub
			if h.real.IsForNet(n.p) != want {
				return bad("IsForNet", "IsForNet(%s) = %v, model %v", n.name, !want, want)
			}
		}
		pk, err := h.real.ECPubKey()
		if err != nil {
			return bad("ECPubKey", "ECPubKey failed: %v", err)
		}
		if !bytes.Equal(pk.SerializeCompressed(), m.PubKey()) {
			return bad("ECPubKey", "public key %x, model %x", pk.SerializeCompressed(), m.PubKey())
		}
		// the returned object is the caller's: callers tweak such keys in
		// place; the extended key must not be affected
		pk.X.Add(pk.X, big.NewInt(1))
		pk.Y.SetInt64(7)
		if m.Private {
			sk, err := h.real.ECPrivKey()
			if err != nil || !bytes.Equal(leftPad32(sk.D.Bytes()), leftPad32(m.Key)) {
				return bad("ECPrivKey", "private scalar differs from the model's (err %v)", err)
			}
			sk.D.SetInt64(3) // the caller's object, see above
			sk.PublicKey.X.SetInt64(5)
		}
	}
	// derivation behaviour: one live handle per step (rotating) derives a probe child
	if live := s.live(); len(live) > 0 && (s.observe == 0 || s.final) {
		i := live[s.stepNo%len(live)]
		h := s.hs[i]
		idx := s.probeIdx
		rk, rerr := h.real.Child(idx)
		mk, merr := h.mod.Child(idx)
		if (rerr == nil) != (merr == nil) {
			return kit.VK("independence-lost:Child", "independence-lost:Child", "%s: probe Child(%d) error %v, model error %v", s.describe(i), idx, rerr, merr)
		}
		if rerr == nil && rk.String() != mk.String() {
			return kit.VK("independence-lost:Child", "independence-lost:Child", "%s: probe Child(%d) = %s, BIP32 model %s", s.describe(i), idx, rk.String(), mk.String())
		}
	}
	if s.zeroWithRelatedLive && liveN > 0 {
		s.observedAfter = true
	}
	return nil
}

func (s *c15) NonTrivial() bool { return s.zeroWithRelatedLive && s.observedAfter }

// C15 returns the engine.
func C15() kit.Engine {
	return &kit.SeqEngine{
		Id:  "C15",
		New: func(st *kit.Stats) kit.SeqSim { return &c15{st: st} },
		Desc: kit.Description{
			Rule: "one run = one drawn history over a pool of up to 12 extended keys (NewMaster incl. distinguished seeds, NewKeyFromString of the library's and of the model's string, NewExtendedKey from fresh field copies incl. depth 254/255 and negated points, Child, Neuter, SetNet, String, ECPubKey, ECPrivKey, Address, calls on zeroed keys) with Zero of an arbitrary live key injected at drawn points; live keys are observed against an independent BIP32 model value after every step, sparsely, or only at the end (drawn per run), returned key objects are modified by the harness, every zeroed key's captured buffers are inspected; non-trivial = at least one Zero while a related key (parent, child, twin, copy, sibling) is live and observed afterwards; distinct = distinct FNV-64 signature of the executed op list",
			RealVsStub: map[string]string{
				"hdkeychain.ExtendedKey (all methods), base58, bchutil.Hash160/Address": "real (from /repo working tree)",
				"bchec curve arithmetic, crypto hashes":                                 "real dependencies (trusted, shared with the model)",
				"BIP32 model (HMAC-SHA512 derivation, serialisation, base58)":           "reference model (verif/sim/model), self-tested on BIP32 test vectors 1 and 2",
				"network / disk / clock":                                                "none exist in this code path",
			},
			Assumptions: []string{"handles that the library documents as the same object (Neuter of a public key) are tracked as one", "buffers handed to NewExtendedKey are fresh copies, so any sharing observed is the library's"},
		},
	}
}
