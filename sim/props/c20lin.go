package props

import (
	"bufio"
	"encoding/json"
	"fmt"
	"io"
	"os"
	"os/exec"
	"time"

	"verif/sim/kit"
)

// The linearizability check of recorded histories runs in a companion
// process built WITHOUT the race detector: porcupine and the model are ~20x
// slower when instrumented, and they are harness code, not code under test.
// The race-instrumented worker streams every recorded history to it.

type linMsg struct {
	Trace *kit.Trace `json:"t"`
	Recs  [][]linRec `json:"r"`
	Cur   int8       `json:"c"`
	Bits  []string   `json:"b"` // hex
}

type linRec struct {
	Call int64 `json:"c"`
	Ret  int64 `json:"r"`
	Out  int64 `json:"o"`
	Done bool  `json:"d"`
}

// LinSummary is the companion's final report.
type LinSummary struct {
	Ok      int64      `json:"ok"`
	Illegal int64      `json:"illegal"`
	Unknown int64      `json:"unknown"`
	Failure *kit.Trace `json:"failure,omitempty"`
	MaxMs   int64      `json:"max_ms"`
	Mono    int64      `json:"monotone"`
}

type linChild struct {
	cmd *exec.Cmd
	in  io.WriteCloser
	w   *bufio.Writer
	out io.ReadCloser
	enc *json.Encoder
}

func startLinChild(bin string) (*linChild, error) {
	cmd := exec.Command(bin, "lincheck")
	in, err := cmd.StdinPipe()
	if err != nil {
		return nil, err
	}
	out, err := cmd.StdoutPipe()
	if err != nil {
		return nil, err
	}
	cmd.Stderr = os.Stderr
	if err := cmd.Start(); err != nil {
		return nil, err
	}
	c := &linChild{cmd: cmd, in: in, out: out, w: bufio.NewWriterSize(in, 1<<16)}
	c.enc = json.NewEncoder(c.w)
	return c, nil
}

func (c *linChild) send(t *kit.Trace, recs [][]opRec, snap *linState) {
	m := linMsg{Trace: t, Cur: snap.cur}
	for _, b := range snap.bits {
		m.Bits = append(m.Bits, kit.Hex([]byte(b)))
	}
	for _, rc := range recs {
		var l []linRec
		for _, r := range rc {
			l = append(l, linRec{r.call, r.ret, r.out, r.done})
		}
		m.Recs = append(m.Recs, l)
	}
	_ = c.enc.Encode(&m)
}

func (c *linChild) finish() (*LinSummary, error) {
	_ = c.w.Flush()
	_ = c.in.Close()
	b, err := io.ReadAll(c.out)
	if err != nil {
		return nil, err
	}
	if err := c.cmd.Wait(); err != nil {
		return nil, fmt.Errorf("lincheck companion: %v", err)
	}
	var s LinSummary
	if err := json.Unmarshal(b, &s); err != nil {
		return nil, fmt.Errorf("lincheck companion output: %v", err)
	}
	return &s, nil
}

// LinCheckMain is the companion's main loop (plain binary).
func LinCheckMain() int {
	e := &c20Engine{schedSigs: map[uint64]struct{}{}}
	st := kit.NewStats()
	sum := &LinSummary{}
	dec := json.NewDecoder(bufio.NewReaderSize(os.Stdin, 1<<16))
	for {
		var m linMsg
		if err := dec.Decode(&m); err == io.EOF {
			break
		} else if err != nil {
			fmt.Fprintln(os.Stderr, "lincheck: bad input:", err)
			return 2
		}
		if sum.Failure != nil {
			continue // drain
		}
		w, err := buildWorld(m.Trace)
		if err != nil {
			continue
		}
		recs := make([][]opRec, len(m.Recs))
		for c, l := range m.Recs {
			for _, r := range l {
				recs[c] = append(recs[c], opRec{call: r.Call, ret: r.Ret, out: r.Out, done: r.Done, invoked: true})
			}
		}
		snap := &linState{cur: m.Cur}
		for i, h := range m.Bits {
			if i < len(snap.bits) {
				snap.bits[i] = string(kit.Op{D: h}.Data())
			}
		}
		t0 := time.Now()
		v := e.checkLin(m.Trace, w, recs, snap, st, 1500*time.Millisecond)
		if ms := time.Since(t0).Milliseconds(); ms > 200 && os.Getenv("VERIF_LIN_DEBUG") != "" {
			n := 0
			for _, c := range m.Trace.Clients {
				n += len(c)
			}
			fmt.Fprintf(os.Stderr, "lincheck slow: %dms tasks=%d ops=%d policy=%d\n", ms, len(m.Trace.Clients), n, m.Trace.Cfg("policy", 0))
		}
		if ms := time.Since(t0).Milliseconds(); ms > sum.MaxMs {
			sum.MaxMs = ms
		}
		if v != nil {
			m.Trace.Viol = v
			sum.Failure = m.Trace
		}
	}
	sum.Ok, sum.Illegal, sum.Unknown = e.porc.ok, e.porc.illegal, e.porc.unknown
	sum.Mono = st.Extra["monotone_interval_checks"]
	b, _ := json.Marshal(sum)
	os.Stdout.Write(b)
	return 0
}

// Finish is called by the worker after its last run.
func (e *c20Engine) Finish(st *kit.Stats) (*kit.Trace, error) {
	if e.lin == nil {
		return nil, nil
	}
	s, err := e.lin.finish()
	e.lin = nil
	if err != nil {
		return nil, err
	}
	e.porc.ok += s.Ok
	e.porc.illegal += s.Illegal
	e.porc.unknown += s.Unknown
	st.Extra["monotone_interval_checks"] += s.Mono
	st.Extra["porcupine_ok"] += s.Ok
	st.Extra["porcupine_illegal"] += s.Illegal
	st.Extra["porcupine_unknown_timeout"] += s.Unknown
	if s.MaxMs > st.Extra["porcupine_max_ms"] {
		st.Extra["porcupine_max_ms"] = s.MaxMs
	}
	return s.Failure, nil
}
