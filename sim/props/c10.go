package props

import (
	"bytes"
	"sort"
	"strings"

	"github.com/gcash/bchd/chaincfg/chainhash"
	"github.com/gcash/bchd/wire"
	"github.com/gcash/bchutil"
	"github.com/gcash/bchutil/bloom"
	"github.com/gcash/bchutil/merkleblock"

	"verif/sim/kit"
	"verif/sim/model"
)

// C10: deliveries of transactions to a filter that each delivery mutates.
// Per delivery the real result and bits must equal the BIP37 model's; a block
// scan, whatever the order in which the block's transactions are delivered,
// must report at least the exact-set closure L and at most what the final
// bits match.

type c10 struct {
	st   *kit.Stats
	f    *bloom.Filter
	real *wire.MsgFilterLoad
	mod  *model.BloomMsg
	// exact knowledge: items explicitly inserted (never outpoints added by
	// updates, which are tracked per scan)
	items map[string]bool

	maxSteps, steps int
	pool            [][]byte
	hashes          [][]byte
	lastTxs         []*wire.MsgTx
	w               []int

	updated, recheck bool
	layeredElem      []byte
}

func (s *c10) Start(r *kit.Rng, cfg map[string]int64) {
	s.items = map[string]bool{}
	if r == nil {
		return
	}
	s.maxSteps = r.Range(3, 24*kit.Depth)
	cfg["max_steps"] = int64(s.maxSteps)
	for i, n := 0, r.Range(3, 6); i < n; i++ {
		s.pool = append(s.pool, r.Bytes(r.Range(1, 33)))
	}
	if r.Chance(1, 8) {
		// an element longer than the 520-byte push limit of standard scripts
		// (a large redeem script someone watches)
		s.pool = append(s.pool, r.Bytes(r.Range(519, 600)))
	}
	for i := 0; i < 3; i++ {
		s.hashes = append(s.hashes, r.Bytes(32))
	}
	// weights: add addop addtxid deliver scan
	s.w = []int{r.Range(1, 6), r.Range(0, 3), r.Range(0, 2), r.Range(1, 8), r.Range(1, 8)}
}

func c10Shape(r *kit.Rng) []int64 {
	var n int
	switch r.Intn(8) {
	case 0:
		n = r.Range(1, 4)
	case 1, 2, 3:
		n = r.Range(8, 64)
	case 4, 5:
		n = r.Range(64, 512)
	default:
		n = r.Range(512, 4096)
	}
	hf := r.Range(1, 10)
	if r.Chance(1, 12) {
		hf = 0
	}
	if r.Chance(1, 12) {
		hf = r.Range(11, 50)
	}
	return []int64{int64(n), int64(hf), int64(r.U32()), int64(r.Intn(3))}
}

func (s *c10) element(r *kit.Rng) []byte {
	d := s.pool[r.Intn(len(s.pool))]
	if r.Chance(2, 3) {
		return scriptElement(r.Intn(skCount), d)
	}
	return d
}

// genBlock draws a block's transactions in generation (= topological) order:
// outputs pay to wallet elements or strangers; inputs spend outputs of
// earlier transactions of the block (chains, forks, diamonds) or outside
// outpoints.
// genLayered draws a dense layered spend graph: every transaction of a layer
// spends one output of EVERY transaction of the layer above, and every output
// pays to a watched element, so that a backwards delivery makes the scan
// re-examine dependants along every path (width^layers of them).
func (s *c10) genLayered(r *kit.Rng) []*wire.MsgTx {
	width, layers := r.Range(2, 3), r.Range(4, 10)
	if width == 3 && layers > 9 {
		layers = 9
	}
	var txs []*wire.MsgTx
	var prev []*wire.MsgTx
	for l := 0; l < layers; l++ {
		var cur []*wire.MsgTx
		for w := 0; w < width; w++ {
			var ins []txIn
			if l == 0 {
				var in txIn
				copy(in.prev[:], r.Bytes(32))
				ins = append(ins, in)
			}
			for _, p := range prev {
				ins = append(ins, txIn{prev: p.TxHash(), index: uint32(w)})
			}
			var outs [][]byte
			for k := 0; k < width; k++ {
				outs = append(outs, makeScript(skP2PKH, s.pool[0], nil))
			}
			if l == 0 {
				outs = append(outs, makeScript(skP2PKH, s.pool[0], nil)) // a spare output for the late spender
			}
			tx := buildTx(1, ins, outs, uint32(l*16+w))
			cur = append(cur, tx)
			txs = append(txs, tx)
		}
		prev = cur
	}
	// one more transaction that pays nobody we watch and only spends the spare
	// output of the OLDEST transaction: delivered first (reverse order), it is
	// relevant only once the very last transaction of the block has matched
	txs = append(txs, buildTx(1, []txIn{{prev: txs[0].TxHash(), index: uint32(width)}}, [][]byte{{0x51}}, 999))
	s.layeredElem = scriptElement(skP2PKH, s.pool[0])
	s.st.Probe("dense-layered-spend-graph")
	return txs
}

// genLarge draws a block of several hundred small transactions with sparse
// spends between them (work that an implementation may split into shares).
func (s *c10) genLarge(r *kit.Rng) []*wire.MsgTx {
	n := r.Range(256, 420)
	var txs []*wire.MsgTx
	for i := 0; i < n; i++ {
		var in txIn
		if i > 0 && r.Chance(1, 3) {
			p := txs[r.Intn(i)]
			in.prev = p.TxHash()
			in.index = uint32(r.Intn(len(p.TxOut) + 1))
		} else {
			copy(in.prev[:], r.Bytes(32))
		}
		var outs [][]byte
		for k, m := 0, r.Range(1, 2); k < m; k++ {
			d := r.Bytes(6)
			if r.Chance(1, 4) {
				d = s.pool[r.Intn(len(s.pool))]
			}
			outs = append(outs, makeScript([]int{skP2PKH, skP2PK, skMultisig}[r.Intn(3)], d, r.Bytes(5)))
		}
		txs = append(txs, buildTx(1, []txIn{in}, outs, uint32(i)))
	}
	s.st.Probe("block-of-several-hundred-transactions")
	return txs
}

func (s *c10) genBlock(r *kit.Rng) []*wire.MsgTx {
	if r.Chance(1, 60) {
		return s.genLayered(r)
	}
	if r.Chance(1, 150) {
		return s.genLarge(r)
	}
	n := r.Range(1, 12)
	if r.Chance(1, 2) {
		n = r.Range(2, 6)
	}
	chainy := r.Chance(1, 2)
	coinbase := r.Chance(1, 2)
	var txs []*wire.MsgTx
	var prevs []prevRef
	for _, h := range s.hashes {
		var ch chainhash.Hash
		copy(ch[:], h)
		prevs = append(prevs, prevRef{ch, 2})
	}
	for i := 0; i < n; i++ {
		nin := r.Range(1, 3)
		var ins []txIn
		for k := 0; k < nin; k++ {
			var in txIn
			switch {
			case i == 0 && k == 0 && coinbase:
				// coinbase-like: spends the null outpoint
				in.prev = chainhash.Hash{}
				in.index = 0xffffffff
			case i > 0 && chainy && k == 0:
				p := txs[i-1]
				in.prev = p.TxHash()
				in.index = uint32(r.Intn(len(p.TxOut) + 1))
			case i > 0 && r.Chance(1, 2):
				p := txs[r.Intn(i)]
				in.prev = p.TxHash()
				in.index = uint32(r.Intn(len(p.TxOut) + 1))
			case r.Chance(1, 3):
				p := prevs[r.Intn(len(prevs))]
				in.prev = p.hash
				in.index = uint32(r.Intn(3))
			default:
				copy(in.prev[:], r.Bytes(32))
				in.index = uint32(r.Intn(3))
			}
			switch r.Intn(6) {
			case 0:
				in.script = nil
			case 1:
				in.script = cat(push(r.Bytes(8)), push(s.element(r)))
			case 2:
				in.script = cat(push(s.element(r)), []byte{0x4c}) // does not parse
			default:
				in.script = cat(push(r.Bytes(6)), push(pad(r.Bytes(3), 33, 0x03)))
			}
			ins = append(ins, in)
		}
		nout := r.Range(0, 3)
		if chainy && nout == 0 {
			nout = 1
		}
		if r.Chance(1, 40) {
			nout = r.Range(250, 300) // batch payout: output indices beyond one byte
		}
		var outs [][]byte
		for k := 0; k < nout; k++ {
			kind := r.Intn(skCount)
			d := r.Bytes(r.Range(1, 20))
			if r.Chance(1, 2) {
				d = s.pool[r.Intn(len(s.pool))]
			}
			if len(ins) > 0 && r.Chance(1, 10) {
				// the script echoes, as a data element, an outpoint this very
				// transaction spends (covenant-style introspection data): it
				// matches only once that outpoint has entered the filter
				in := ins[r.Intn(len(ins))]
				d = model.OutPointBytes([32]byte(in.prev), in.index)
				kind = []int{skNullData, skNonStd, skOp0}[r.Intn(3)]
				s.st.Probe("output-echoes-spent-outpoint")
			}
			pushStyle = 0
			if r.Chance(1, 6) {
				pushStyle = 1 + r.Intn(2) // non-canonical push encodings
			}
			outs = append(outs, makeScript(kind, d, r.Bytes(5)))
			pushStyle = 0
		}
		tx := buildTx(1, ins, outs, uint32(r.Intn(1<<20)))
		if r.Chance(1, 10) && len(tx.TxOut) > 0 {
			// a token-bearing output whose category id is something the
			// wallet may well have in its filter (category ids are txids):
			// token data is not a data element of the script
			var cat [32]byte
			switch {
			case len(txs) > 0 && r.Chance(1, 2):
				cat = txs[r.Intn(len(txs))].TxHash()
			default:
				copy(cat[:], s.hashes[r.Intn(len(s.hashes))])
			}
			amt := uint64(r.Range(1, 200))
			if td, err := wire.NewTokenData(cat, &amt, nil, nil); err == nil {
				tx.TxOut[r.Intn(len(tx.TxOut))].TokenData = *td
				if stableTx(tx) {
					s.st.Probe("token-output-with-watched-category")
				} else {
					for _, o := range tx.TxOut {
						o.TokenData = wire.TokenData{}
					}
				}
			}
		}
		txs = append(txs, tx)
	}
	return txs
}

func orderTxs(r *kit.Rng, txs []*wire.MsgTx) ([]*wire.MsgTx, string) {
	out := append([]*wire.MsgTx(nil), txs...)
	switch r.Intn(4) {
	case 0:
		return out, "topological"
	case 1:
		for i, j := 0, len(out)-1; i < j; i, j = i+1, j-1 {
			out[i], out[j] = out[j], out[i]
		}
		return out, "reverse"
	case 2: // canonical: first stays, rest by txid
		rest := out[1:]
		sort.Slice(rest, func(i, j int) bool {
			a, b := rest[i].TxHash(), rest[j].TxHash()
			return bytes.Compare(a[:], b[:]) < 0
		})
		return out, "ctor"
	default:
		for i := len(out) - 1; i > 0; i-- {
			j := r.Intn(i + 1)
			out[i], out[j] = out[j], out[i]
		}
		return out, "random"
	}
}

func txsHex(txs []*wire.MsgTx) string {
	var p []string
	for _, t := range txs {
		p = append(p, kit.Hex(serTx(t)))
	}
	return strings.Join(p, ",")
}

func parseTxs(s string) []*wire.MsgTx {
	var out []*wire.MsgTx
	if s == "" {
		return nil
	}
	for _, p := range strings.Split(s, ",") {
		tx, err := deserTx(kit.Op{D: p}.Data())
		if err != nil {
			return nil
		}
		out = append(out, tx)
	}
	return out
}

func (s *c10) Gen(r *kit.Rng) (kit.Op, bool) {
	if s.steps >= s.maxSteps {
		return kit.Op{}, false
	}
	s.steps++
	if s.f == nil {
		return kit.Op{K: "load", N: c10Shape(r)}, true
	}
	switch r.Pick(s.w) {
	case 0:
		return kit.Op{K: "add", D: kit.Hex(s.element(r))}, true
	case 1:
		h := s.hashes[r.Intn(len(s.hashes))]
		if r.Chance(1, 10) {
			return kit.Op{K: "addop", D: kit.Hex(make([]byte, 32)), N: []int64{0xffffffff}}, true
		}
		if len(s.lastTxs) > 0 && r.Chance(1, 2) {
			x := s.lastTxs[r.Intn(len(s.lastTxs))].TxHash()
			h = x[:]
		}
		return kit.Op{K: "addop", D: kit.Hex(h), N: []int64{int64(r.Intn(3))}}, true
	case 2:
		if r.Chance(1, 3) {
			return kit.Op{K: "add", D: kit.Hex(s.hashes[r.Intn(len(s.hashes))])}, true
		}
		if len(s.lastTxs) == 0 {
			s.lastTxs = s.genBlock(r)
		}
		x := s.lastTxs[r.Intn(len(s.lastTxs))].TxHash()
		return kit.Op{K: "add", D: kit.Hex(x[:])}, true
	case 3:
		if len(s.lastTxs) == 0 || r.Chance(1, 3) {
			s.lastTxs = s.genBlock(r)
		}
		tx := s.lastTxs[r.Intn(len(s.lastTxs))]
		return kit.Op{K: "deliver", D: kit.Hex(serTx(tx))}, true
	default:
		if len(s.lastTxs) == 0 || r.Chance(1, 2) {
			s.lastTxs = s.genBlock(r)
		}
		if s.layeredElem != nil {
			// the element the layered graph pays to must be watched
			e := s.layeredElem
			s.layeredElem = nil
			if !s.items[string(e)] {
				return kit.Op{K: "add", D: kit.Hex(e)}, true
			}
		}
		src := s.lastTxs
		if len(src) > 1 && r.Chance(1, 2) {
			// only part of the generated transactions: consecutive scans then
			// see related but different blocks (a child in one scan, its
			// parent in a later one) - state kept from one scan to the next
			// shows up here
			var sub []*wire.MsgTx
			for _, t := range src {
				if r.Chance(1, 2) {
					sub = append(sub, t)
				}
			}
			if len(sub) > 0 {
				src = sub
			}
		}
		txs, name := orderTxs(r, src)
		return kit.Op{K: "scan", S: txsHex(txs), N: []int64{int64(r.Intn(3)), int64(r.Intn(len(txs)+2) - 1)}, D: kit.Hex([]byte(name))}, true
	}
}

func (s *c10) Apply(o kit.Op) *kit.Violation {
	if s.f == nil && o.K != "load" {
		return nil
	}
	switch o.K {
	case "load":
		n, hf, tw, fl, ok := shapeOK(o)
		if !ok || s.f != nil {
			return nil
		}
		s.real = wire.NewMsgFilterLoad(make([]byte, n), hf, tw, wire.BloomUpdateType(fl))
		s.mod = model.NewBloomMsg(n, hf, tw, fl)
		s.f = bloom.LoadFilter(s.real)
	case "add":
		d := o.Data()
		s.f.Add(d)
		s.mod.Insert(d)
		s.items[string(d)] = true
	case "addop":
		d := o.Data()
		if len(d) != 32 {
			return nil
		}
		h := hashOf(d)
		s.f.AddOutPoint(wire.NewOutPoint(h, uint32(o.Arg(0))))
		it := model.OutPointBytes(*h, uint32(o.Arg(0)))
		s.mod.Insert(it)
		s.items[string(it)] = true
	case "deliver":
		tx, err := deserTx(o.Data())
		if err != nil {
			return nil
		}
		return s.deliver(tx)
	case "scan":
		txs := parseTxs(o.S)
		if len(txs) == 0 {
			return nil
		}
		pre := -1
		if len(o.N) > 1 {
			pre = int(o.Arg(1))
		}
		return s.scan(txs, int(o.Arg(0)), string(o.Data()), pre)
	}
	return nil
}

func (s *c10) deliver(tx *wire.MsgTx) *kit.Violation {
	before := append([]byte(nil), s.mod.Bits...)
	got := s.f.MatchTxAndUpdate(bchutil.NewTx(tx))
	mb := model.Bloom{Cur: s.mod}
	view := model.ViewOf(tx)
	want := mb.MatchAndUpdate(view)
	if !bytes.Equal(before, s.mod.Bits) {
		s.updated = true
		s.st.Probe("delivery-updated-filter")
	}
	s.deliveryProbes(view, before, want)
	if got != want {
		return kit.V("model-mismatch:MatchTxAndUpdate", "MatchTxAndUpdate(tx %s) = %v, BIP37 model says %v (flags %d)", tx.TxHash(), got, want, s.mod.Flags)
	}
	return nil // bits compared in Check
}

// deliveryProbes records which rarely-hit conditions this delivery reached.
func (s *c10) deliveryProbes(v *model.TxView, before []byte, matched bool) {
	m := &model.BloomMsg{Bits: before, HashFuncs: s.mod.HashFuncs, Tweak: s.mod.Tweak, Flags: s.mod.Flags}
	outMatch := false
	for _, sc := range v.Outputs {
		ps, ok := modelPushes(sc)
		if !ok {
			s.st.Probe("unparsable-output-script-skipped")
			continue
		}
		for _, p := range ps {
			if m.Contains(p) {
				outMatch = true
				if s.mod.Flags == model.UpdateP2PubkeyOnly && !modelIsPubkeyish(sc) {
					s.st.Probe("p2pubkeyonly-non-pubkey-output-matched-no-update")
				}
				if len(p) == 0 {
					s.st.Probe("empty-push-matched")
				}
			}
		}
	}
	if matched && !outMatch && !m.Contains(v.TxID[:]) {
		s.st.Probe("matched-by-input-only")
	}
}

func modelPushes(script []byte) ([][]byte, bool) { return model.Pushes(script) }

func modelIsPubkeyish(script []byte) bool { return model.IsPubkeyOrMultisig(script) }

// exactClosure computes L: the least fixpoint of relevance over the exact
// item set. Explicitly inserted items decide id / push / outpoint matches;
// outpoints the update flag prescribes for exactly-matching outputs extend
// only the set of spendable outpoints (the statement's "spend outputs which
// became relevant"), so L never demands more than the statement.
func (s *c10) exactClosure(txs []*wire.MsgTx, flags uint8) (map[int]bool, int) {
	return exactClosure(s.items, txs, flags)
}

// soleOutpointEcho covers one more consequence of the statement (twelfth wave,
// C10-C1012): a transaction whose ONLY reason for relevance is that it spends
// one outpoint O that became relevant inside the block, and one of whose
// output scripts pushes the 36 serialised bytes of that same O. Every
// evaluation that finds it relevant sees a filter containing O, hence an
// output match, hence (flag permitting) an update with that output's
// outpoint - which its own spenders then inherit. Anything wider (two reasons,
// an echo of some other outpoint) could be evaluated before the echoed
// outpoint is in the filter and is deliberately not demanded.
func soleOutpointEcho(items, outs map[string]bool, v *model.TxView, flags uint8) []int {
	if items[string(v.TxID[:])] {
		return nil
	}
	for _, sc := range v.Outputs {
		if ps, ok := model.Pushes(sc); ok {
			for _, p := range ps {
				if items[string(p)] {
					return nil
				}
			}
		}
	}
	sole := ""
	for _, in := range v.Inputs {
		op := string(model.OutPointBytes(in.PrevHash, in.PrevIndex))
		if items[op] {
			return nil
		}
		if ps, ok := model.Pushes(in.SigScript); ok {
			for _, p := range ps {
				if items[string(p)] {
					return nil
				}
			}
		}
		if outs[op] {
			if sole != "" && sole != op {
				return nil
			}
			sole = op
		}
	}
	if sole == "" {
		return nil
	}
	var upd []int
	for k, sc := range v.Outputs {
		ps, ok := model.Pushes(sc)
		if !ok {
			continue
		}
		for _, p := range ps {
			if string(p) == sole {
				if flags == model.UpdateAll || flags == model.UpdateP2PubkeyOnly && model.IsPubkeyOrMultisig(sc) {
					upd = append(upd, k)
				}
				break
			}
		}
	}
	return upd
}

// exactClosure is shared with the concurrent block-scan runs of C20.
func exactClosure(items map[string]bool, txs []*wire.MsgTx, flags uint8) (map[int]bool, int) {
	views := make([]*model.TxView, len(txs))
	for i, t := range txs {
		views[i] = model.ViewOf(t)
	}
	outs := map[string]bool{}
	L := map[int]bool{}
	rounds := 0
	for changed := true; changed; {
		changed = false
		rounds++
		for i, v := range views {
			rel := items[string(v.TxID[:])]
			var upd []int
			for k, sc := range v.Outputs {
				ps, ok := model.Pushes(sc)
				if !ok {
					continue
				}
				for _, p := range ps {
					if items[string(p)] {
						rel = true
						if flags == model.UpdateAll || flags == model.UpdateP2PubkeyOnly && model.IsPubkeyOrMultisig(sc) {
							upd = append(upd, k)
						}
						break
					}
				}
			}
			if !rel {
				for _, in := range v.Inputs {
					op := string(model.OutPointBytes(in.PrevHash, in.PrevIndex))
					if items[op] || outs[op] {
						rel = true
						break
					}
					if ps, ok := model.Pushes(in.SigScript); ok {
						for _, p := range ps {
							if items[string(p)] {
								rel = true
							}
						}
					}
				}
			}
			if rel && len(upd) == 0 {
				upd = soleOutpointEcho(items, outs, v, flags)
			}
			if rel {
				if !L[i] {
					L[i] = true
					changed = true
				}
				for _, k := range upd {
					op := string(model.OutPointBytes(v.TxID, uint32(k)))
					if !outs[op] {
						outs[op] = true
						changed = true
					}
				}
			}
		}
	}
	return L, rounds
}

func cloneMsg(m *wire.MsgFilterLoad) *wire.MsgFilterLoad {
	return wire.NewMsgFilterLoad(append([]byte(nil), m.Filter...), m.HashFuncs, m.Tweak, m.Flags)
}

func (s *c10) scan(txs []*wire.MsgTx, api int, order string, prefetch int) *kit.Violation {
	blk := wire.NewMsgBlock(&wire.BlockHeader{Version: 1, Bits: 0x207fffff})
	for _, t := range txs {
		_ = blk.AddTransaction(t)
	}
	L, rounds := s.exactClosure(txs, s.mod.Flags)
	// the three scanning entry points, each on its own identical filter
	// ONE wrapped block serves all scans of this step (a scan must not leave
	// anything behind on the Block / Tx wrappers that a later scan with
	// another filter could pick up); some of its transactions are fetched
	// beforehand, in another order than the scan will visit them
	wb := bchutil.NewBlock(blk)
	if prefetch >= 0 && prefetch < len(txs) {
		if t, err := wb.Tx(prefetch); err == nil {
			t.Hash()
		}
		s.st.Probe("scan-of-partly-fetched-block")
	}
	run := func(which int, msg *wire.MsgFilterLoad) []int {
		f := bloom.LoadFilter(msg)
		var idx []int
		switch which {
		case 0:
			for i, ok := range bloom.GetMatchedIndices(wb, f) {
				if ok {
					idx = append(idx, i)
				}
			}
		case 1:
			_, ids := bloom.NewMerkleBlock(wb, f)
			for _, i := range ids {
				idx = append(idx, int(i))
			}
		default:
			_, ids := merkleblock.NewMerkleBlockWithFilter(wb, f)
			for _, i := range ids {
				idx = append(idx, int(i))
			}
		}
		sort.Ints(idx)
		return idx
	}
	pre := s.mod.Clone() // the model holds the pre-scan bits (Check keeps them equal to the real ones)
	var results [3][]int
	var finals [3]*wire.MsgFilterLoad
	for which := 0; which < 3; which++ {
		if which == api {
			finals[which] = s.real // this one runs on the live filter of the history
		} else {
			finals[which] = wire.NewMsgFilterLoad(append([]byte(nil), pre.Bits...), pre.HashFuncs, pre.Tweak, wire.BloomUpdateType(pre.Flags))
		}
		results[which] = run(which, finals[which])
	}
	names := []string{"bloom.GetMatchedIndices", "bloom.NewMerkleBlock", "merkleblock.NewMerkleBlockWithFilter"}
	for which := 1; which < 3; which++ {
		if !equalInts(results[0], results[which]) {
			return kit.V("scan:builders-disagree", "%s reported %v but %s reported %v for the same block (order %s) and filter", names[0], results[0], names[which], results[which], order)
		}
		if !bytes.Equal(finals[0].Filter, finals[which].Filter) {
			return kit.V("scan:builders-disagree", "%s and %s leave different filter bits for the same block and filter", names[0], names[which])
		}
	}
	rep := map[int]bool{}
	for _, i := range results[api] {
		if i < 0 || i >= len(txs) {
			return kit.V("scan:index-out-of-range", "reported index %d of %d transactions", i, len(txs))
		}
		rep[i] = true
	}
	// lower bound
	for i := range txs {
		if L[i] && !rep[i] {
			return kit.V("scan:relevant-transaction-missed", "block of %d transactions delivered in %s order: transaction %d (%s) is relevant to the exact inserted items (closure reached in %d rounds) but was not reported; reported %v", len(txs), order, i, txs[i].TxHash(), rounds, results[api])
		}
	}
	// upper bound: under the final bits
	for _, i := range results[api] {
		m := &model.BloomMsg{Bits: append([]byte(nil), s.real.Filter...), HashFuncs: pre.HashFuncs, Tweak: pre.Tweak, Flags: pre.Flags}
		b := model.Bloom{Cur: m}
		if !b.MatchAndUpdate(model.ViewOf(txs[i])) {
			return kit.V("scan:reported-but-unmatched", "transaction %d was reported but the final filter state does not match it", i)
		}
		if !L[i] {
			s.st.Probe("false-positive-reported")
		}
	}
	// the same wrapped block under an EMPTY filter of the same shape: nothing
	// may be reported (an empty BIP37 filter with at least one hash function
	// contains nothing), whatever earlier scans did with this wrapper
	if pre.HashFuncs > 0 {
		empty := wire.NewMsgFilterLoad(make([]byte, len(pre.Bits)), pre.HashFuncs, pre.Tweak, wire.BloomUpdateType(pre.Flags))
		if got := run((api+1)%3, empty); len(got) != 0 {
			return kit.V("scan:empty-filter-reports-transactions", "after scans with a populated filter, scanning the same wrapped block with an empty filter reported %v", got)
		}
		s.st.Probe("rescan-with-empty-filter")
	}
	// monotonicity and model sync: bits only grow; adopt them in the model
	// (the scan's exact bit result is order- and algorithm-dependent; what is
	// checked bit-exactly is each single delivery)
	for i, b := range pre.Bits {
		if s.real.Filter[i]&b != b {
			return kit.V("scan:bits-cleared", "the block scan cleared filter bits")
		}
	}
	copy(s.mod.Bits, s.real.Filter)
	// probes
	s.scanProbes(txs, L, rounds, order)
	return nil
}

func (s *c10) scanProbes(txs []*wire.MsgTx, L map[int]bool, rounds int, order string) {
	s.st.Probe("scan-order-" + order)
	if len(L) > 0 {
		s.st.Probe("scan-with-relevant-transactions")
	}
	// re-check needed: a relevant child appears before the parent whose
	// output it spends
	pos := map[chainhash.Hash]int{}
	for i, t := range txs {
		pos[t.TxHash()] = i
	}
	depth := 0
	for i, t := range txs {
		if !L[i] {
			continue
		}
		for _, in := range t.TxIn {
			if p, ok := pos[in.PreviousOutPoint.Hash]; ok && p > i && L[p] {
				s.recheck = true
				s.st.Probe("recheck-needed-child-before-parent")
				depth++
			}
		}
	}
	if depth >= 2 && rounds >= 3 {
		s.st.Probe("chain-resolved-backwards-depth>=3")
	}
}

func equalInts(a, b []int) bool {
	if len(a) != len(b) {
		return false
	}
	for i := range a {
		if a[i] != b[i] {
			return false
		}
	}
	return true
}

func (s *c10) Check() *kit.Violation {
	if s.f == nil {
		return nil
	}
	if !bytes.Equal(s.real.Filter, s.mod.Bits) {
		j := 0
		for j < len(s.mod.Bits) && s.real.Filter[j] == s.mod.Bits[j] {
			j++
		}
		return kit.V("invariant:bits-differ-from-BIP37", "after the step the filter bits differ from the BIP37 model at byte %d: real %#02x model %#02x", j, at(s.real.Filter, j), at(s.mod.Bits, j))
	}
	return nil
}

func (s *c10) NonTrivial() bool { return s.updated || s.recheck }

// C10 returns the engine.
func C10() kit.Engine {
	return &kit.SeqEngine{
		Id:  "C10",
		New: func(st *kit.Stats) kit.SeqSim { return &c10{st: st} },
		Desc: kit.Description{
			Rule: "one run = one drawn history of insertions, single-transaction deliveries and block scans on one filter (shape, flag, spend graph incl. coinbase-like inputs, many-output transactions, long and non-canonically pushed elements; scans of whole or partial transaction sets in topological, reverse, canonical or random order through three entry points on one re-used wrapped block, followed by an empty-filter rescan); per delivery result and bits equal the BIP37 model; per scan: exact-set closure subset of reported subset of matches-under-final-bits; non-trivial = a delivery updated the filter or a scan needed a re-check (relevant child delivered before its parent); distinct = distinct FNV-64 signature of the executed op list",
			RealVsStub: map[string]string{
				"bloom.Filter.MatchTxAndUpdate, bloom.GetMatchedIndices, bloom.NewMerkleBlock, merkleblock.NewMerkleBlockWithFilter, bchutil.Tx/Block": "real (from /repo working tree)",
				"txscript.PushedData / GetScriptClass, wire":          "real dependencies, shared with the model (trusted)",
				"BIP37 relevance-and-update model, exact-set closure": "reference model (verif/sim/model, verif/sim/props)",
				"network / disk / clock":                              "none; the simulated dimension is delivery order and history",
			},
			Assumptions: []string{"spend graphs and scripts are generated inputs; the simulator-controlled dimension is the delivery order and the history of filter mutations", "L only lets flag-prescribed outpoints extend the set of spendable outpoints (not push matches), so it never demands more than the statement"},
		},
	}
}
