package props

import (
	"bytes"

	"github.com/gcash/bchd/chaincfg/chainhash"
	"github.com/gcash/bchd/wire"

	"verif/sim/kit"
)

// Script shapes used by the transaction generators (C10, C20). Raw opcodes
// are written out so that unparsable and non-standard scripts can be made.
const (
	opDup         = 0x76
	opHash160     = 0xa9
	opEqualVerify = 0x88
	opEqual       = 0x87
	opCheckSig    = 0xac
	opCheckMulti  = 0xae
	opReturn      = 0x6a
	op1           = 0x51
	op2           = 0x52
	op3           = 0x53
	opNop         = 0x61
	opPushData1   = 0x4c
)

// pushStyle selects how data pushes are encoded by push(): 0 = canonical,
// 1 = OP_PUSHDATA1 even for short data, 2 = OP_PUSHDATA2. The generators set
// it per script; it is plain generator state, drawn from the run's PRNG.
var pushStyle int

func push(d []byte) []byte {
	if len(d) > 0 {
		switch pushStyle {
		case 1:
			if len(d) < 256 {
				return append([]byte{opPushData1, byte(len(d))}, d...)
			}
		case 2:
			return append([]byte{0x4d, byte(len(d)), byte(len(d) >> 8)}, d...)
		}
	}
	return pushCanonical(d)
}

func pushCanonical(d []byte) []byte {
	switch {
	case len(d) == 0:
		return []byte{0x00}
	case len(d) <= 75:
		return append([]byte{byte(len(d))}, d...)
	case len(d) <= 255:
		return append([]byte{opPushData1, byte(len(d))}, d...)
	default:
		return append([]byte{0x4d, byte(len(d)), byte(len(d) >> 8)}, d...)
	}
}

func cat(parts ...[]byte) []byte { return bytes.Join(parts, nil) }

// Script kinds.
const (
	skP2PKH = iota
	skP2PK
	skMultisig
	skP2SH
	skNullData
	skNonStd
	skUnparsable
	skEmpty
	skOp0
	skP2PK65
	skCount
)

// pad returns d extended or cut to n bytes (deterministically).
func pad(d []byte, n int, fill byte) []byte {
	out := make([]byte, n)
	for i := range out {
		out[i] = fill
	}
	copy(out, d)
	return out
}

// makeScript builds a script of the kind around data element d (the element
// a filter may contain). other is a second element for multi-push shapes.
func makeScript(kind int, d, other []byte) []byte {
	switch kind {
	case skP2PKH:
		return cat([]byte{opDup, opHash160}, push(pad(d, 20, 0x11)), []byte{opEqualVerify, opCheckSig})
	case skP2PK:
		return cat(push(pad(d, 33, 0x02)), []byte{opCheckSig})
	case skP2PK65:
		return cat(push(pad(d, 65, 0x04)), []byte{opCheckSig})
	case skMultisig:
		return cat([]byte{op1}, push(pad(other, 33, 0x03)), push(pad(d, 33, 0x02)), []byte{op2, opCheckMulti})
	case skP2SH:
		return cat([]byte{opHash160}, push(pad(d, 20, 0x22)), []byte{opEqual})
	case skNullData:
		return cat([]byte{opReturn}, push(other), push(d))
	case skNonStd:
		return cat([]byte{opNop}, push(other), []byte{opNop}, push(d), []byte{opDup})
	case skUnparsable:
		// a complete push of d followed by a truncated push: the script
		// does not parse, so BIP37 implementations skip it entirely
		return cat(push(d), []byte{0x4b, 0x01, 0x02})
	case skEmpty:
		return []byte{}
	case skOp0:
		return cat([]byte{0x00}, push(d))
	}
	return nil
}

// scriptElement returns the data element exactly as it appears in the
// script of that kind (after padding), i.e. what must be inserted into a
// filter for the script to match.
func scriptElement(kind int, d []byte) []byte {
	switch kind {
	case skP2PKH:
		return pad(d, 20, 0x11)
	case skP2PK, skMultisig:
		return pad(d, 33, 0x02)
	case skP2PK65:
		return pad(d, 65, 0x04)
	case skP2SH:
		return pad(d, 20, 0x22)
	}
	return d
}

// txSpec describes a transaction to build.
type txIn struct {
	prev   chainhash.Hash
	index  uint32
	script []byte
}

func buildTx(version int32, ins []txIn, outs [][]byte, lock uint32) *wire.MsgTx {
	tx := wire.NewMsgTx(version)
	for _, in := range ins {
		tx.AddTxIn(wire.NewTxIn(wire.NewOutPoint(&in.prev, in.index), in.script))
	}
	for i, s := range outs {
		tx.AddTxOut(wire.NewTxOut(int64(1000+i), s, wire.TokenData{}))
	}
	tx.LockTime = lock
	return tx
}

func serTx(tx *wire.MsgTx) []byte {
	var b bytes.Buffer
	_ = tx.Serialize(&b)
	return b.Bytes()
}

func deserTx(b []byte) (*wire.MsgTx, error) {
	var tx wire.MsgTx
	if err := tx.Deserialize(bytes.NewReader(b)); err != nil {
		return nil, err
	}
	return &tx, nil
}

// genTx draws a small transaction whose scripts mention elements of pool and
// whose inputs spend outpoints of prevs (hash, nOutputs) or random ones.
func genTx(r *kit.Rng, pool [][]byte, prevs []prevRef, salt uint32) *wire.MsgTx {
	nin := r.Range(1, 3)
	nout := r.Range(0, 3)
	if r.Chance(1, 10) {
		nout = 0
	}
	var ins []txIn
	for i := 0; i < nin; i++ {
		var in txIn
		if len(prevs) > 0 && r.Chance(2, 3) {
			p := prevs[r.Intn(len(prevs))]
			in.prev = p.hash
			in.index = uint32(r.Intn(p.nout + 1))
		} else if r.Chance(1, 8) {
			in.index = 0xffffffff // the null outpoint (coinbase-like input)
		} else {
			copy(in.prev[:], r.Bytes(32))
			in.index = uint32(r.Intn(3))
		}
		switch r.Intn(5) {
		case 0:
			in.script = nil
		case 1:
			in.script = cat(push(r.Bytes(8)), push(pickPool(r, pool)))
		case 2:
			in.script = cat(push(pickPool(r, pool)), []byte{0x4c}) // unparsable
		default:
			in.script = cat(push(r.Bytes(4)), push(pad(r.Bytes(2), 33, 0x02)))
		}
		ins = append(ins, in)
	}
	var outs [][]byte
	for i := 0; i < nout; i++ {
		kind := r.Intn(skCount)
		outs = append(outs, makeScript(kind, pickPool(r, pool), pickPool(r, pool)))
	}
	return buildTx(1, ins, outs, salt)
}

type prevRef struct {
	hash chainhash.Hash
	nout int
}

func pickPool(r *kit.Rng, pool [][]byte) []byte {
	if len(pool) == 0 || r.Chance(1, 6) {
		return r.Bytes(r.Range(1, 20))
	}
	return pool[r.Intn(len(pool))]
}
