// Package props holds one simulator per claimed property.
package props

import (
	"bytes"
	"fmt"
	"math"

	"github.com/gcash/bchd/chaincfg/chainhash"
	"github.com/gcash/bchd/wire"
	"github.com/gcash/bchutil/bloom"

	"verif/sim/kit"
	"verif/sim/model"
)

// C09: history of insertions / membership tests on one filter handle with
// unload, reload (fresh or earlier object) and restart-from-wire injected at
// arbitrary points, compared step by step with the BIP37 model.

type c09Msg struct {
	real     *wire.MsgFilterLoad
	mod      *model.BloomMsg
	inserted [][]byte
}

// c09H is one filter handle: the real Filter, the model's view of what it
// has loaded.
type c09H struct {
	f   *bloom.Filter
	mb  model.Bloom
	cur int // index into msgs, -1 = unloaded / no filter yet
}

type c09 struct {
	st *kit.Stats
	// up to two handles live side by side and may load the SAME message
	// objects: state shared between Filter objects, or a handle that keeps
	// its own copy of a message, shows up on the other handle / the message
	hs    [2]*c09H
	*c09H // the handle the current operation addresses
	msgs  []*c09Msg

	// generation state
	maxSteps int
	steps    int
	w        []int // op weights
	items    [][]byte
	big      bool
	marathon bool

	// non-triviality
	inserted, faultAfter, queryAfter bool
}

var c09Kinds = []string{"add", "addhash", "addop", "match", "matchop", "isloaded", "msg", "unload", "reload_new", "reload_old", "restart", "newfilter", "load", "reload_populated", "load_populated"}

var c09Lens = []int{1, 1, 2, 3, 4, 7, 8, 9, 16, 31, 255, 256, 4096, 35999, 36000}

func (s *c09) Start(r *kit.Rng, cfg map[string]int64) {
	s.hs[0] = &c09H{cur: -1}
	s.hs[1] = &c09H{cur: -1}
	s.c09H = s.hs[0]
	if r == nil {
		return
	}
	s.maxSteps = r.Range(3, 60*kit.Depth)
	if r.Chance(1, 4) {
		s.maxSteps = r.Range(3, 10)
	}
	marathon := kit.Depth > 1 && r.Chance(1, 4000) // thorough tier only: such a run takes seconds
	s.marathon = marathon
	if marathon {
		// one object used for a very long time (counters that wrap or
		// saturate, thresholds on the number of insertions)
		s.maxSteps = r.Range(66000, 72000)
		s.st.Probe("marathon-run")
	}
	// swarm: each op kind enabled with its own weight, some disabled
	s.w = make([]int, len(c09Kinds))
	for i := range s.w {
		if r.Chance(3, 4) {
			s.w[i] = r.Range(1, 10)
		}
	}
	// keep the run meaningful: insertion and query always possible
	if s.w[0]+s.w[1]+s.w[2] == 0 {
		s.w[r.Intn(3)] = 5
	}
	if s.w[3]+s.w[4] == 0 {
		s.w[3+r.Intn(2)] = 5
	}
	if marathon {
		for i := range s.w {
			s.w[i] = 0
		}
		s.w[0], s.w[2], s.w[3], s.w[4], s.w[7], s.w[9] = 20, 5, 10, 3, 1, 1
	}
	// constructors are rare after the first step
	s.w[11] = min(s.w[11], 1)
	s.w[12] = min(s.w[12], 1)
	s.w[14] = min(s.w[14], 1)
	n := r.Range(2, 12)
	for i := 0; i < n; i++ {
		s.items = append(s.items, c09Item(r))
	}
	cfg["max_steps"] = int64(s.maxSteps)
}

func c09Item(r *kit.Rng) []byte {
	if r.Chance(1, 14) {
		// lengths around powers of two (block counters, length fields)
		base := 64 << uint(r.Intn(11)) // 64 .. 65536
		return r.Bytes(base - 2 + r.Intn(7))
	}
	switch r.Intn(10) {
	case 0:
		return []byte{}
	case 1:
		return r.Bytes(r.Range(1, 3))
	case 2:
		return r.Bytes(20)
	case 3:
		return r.Bytes(32)
	case 4:
		return r.Bytes(33)
	case 5:
		return r.Bytes(36)
	case 6:
		return r.Bytes(65)
	default:
		return r.Bytes(r.Range(0, 70))
	}
}

// marathonShape keeps very long histories affordable.
func marathonShape(r *kit.Rng) []int64 {
	return []int64{int64(r.Range(1, 64)), int64(r.Range(1, 12)), int64(r.U32()), int64(r.Intn(3))}
}

func c09Shape(r *kit.Rng) []int64 {
	var n int
	switch r.Intn(10) {
	case 0, 1, 2, 3:
		n = r.Range(1, 16)
	case 4, 5, 6:
		n = c09Lens[r.Intn(len(c09Lens))]
	case 7:
		n = r.Range(1, 600)
	default:
		n = r.Range(1, 36000)
	}
	var hf int
	switch r.Intn(6) {
	case 0:
		hf = 0
	case 1:
		hf = 50
	case 2:
		hf = 1
	default:
		hf = r.Range(0, 50)
	}
	if n > 4096 && r.Chance(3, 4) {
		hf = r.Range(0, 8)
	}
	var tw uint32
	switch r.Intn(7) {
	case 0:
		tw = 0
	case 1:
		tw = 1
	case 2:
		tw = 1 << 31
	case 3:
		tw = 0xffffffff
	case 4:
		tw = 0 - 0xFBA4C795*uint32(r.Range(1, 5)) + uint32(r.Range(0, 2)) // makes i*C+tweak land near zero
	default:
		tw = r.U32()
	}
	return []int64{int64(n), int64(hf), int64(tw), int64(r.Intn(3))}
}

func (s *c09) Gen(r *kit.Rng) (kit.Op, bool) {
	if s.steps >= s.maxSteps {
		return kit.Op{}, false
	}
	// which handle? the second one appears in some runs, sometimes over a
	// message object the first one already uses
	hi := 0
	if s.hs[0].f != nil && (s.hs[1].f != nil || r.Chance(1, 12)) && r.Chance(1, 2) {
		hi = 1
	}
	s.c09H = s.hs[hi]
	if hi == 1 && s.f == nil && len(s.msgs) > 0 && r.Chance(1, 2) {
		s.steps++
		return kit.Op{K: "load_shared", H: r.Intn(len(s.msgs)), S: "1"}, true
	}
	op, ok := s.gen0(r)
	if hi == 1 {
		op.S = "1"
	}
	return op, ok
}

func (s *c09) gen0(r *kit.Rng) (kit.Op, bool) {
	if s.steps >= s.maxSteps {
		return kit.Op{}, false
	}
	s.steps++
	if s.f == nil {
		if r.Chance(1, 5) {
			return s.genNewFilter(r), true
		}
		if r.Chance(1, 5) {
			return kit.Op{K: "load_populated", N: append(c09Shape(r), int64(r.Intn(5)), int64(r.U32()))}, true
		}
		if r.Chance(1, 12) {
			return kit.Op{K: "load_nil"}, true // a handle that starts unloaded
		}
		if s.marathon {
			return kit.Op{K: "load", N: marathonShape(r)}, true
		}
		return kit.Op{K: "load", N: c09Shape(r)}, true
	}
	for {
		k := c09Kinds[r.Pick(s.w)]
		switch k {
		case "add":
			return kit.Op{K: k, D: kit.Hex(s.pickItem(r))}, true
		case "addhash":
			return kit.Op{K: k, D: kit.Hex(s.pickHash(r))}, true
		case "addop", "matchop":
			h := s.pickHash(r)
			idx := []uint32{0, 1, 2, 255, 256, 0xffffffff, r.U32()}[r.Intn(7)]
			if k == "matchop" && s.cur >= 0 && len(s.msgs[s.cur].inserted) > 0 && r.Chance(1, 2) {
				// an inserted outpoint or a near miss of one
				ins := s.msgs[s.cur].inserted
				if len(ins) > 64 {
					ins = ins[len(ins)-64:]
				}
				for _, it := range ins {
					if len(it) == 36 {
						h = append([]byte(nil), it[:32]...)
						idx = uint32(it[32]) | uint32(it[33])<<8 | uint32(it[34])<<16 | uint32(it[35])<<24
						if r.Chance(1, 3) {
							idx ^= 1
						}
						break
					}
				}
			}
			return kit.Op{K: k, D: kit.Hex(h), N: []int64{int64(idx)}}, true
		case "match":
			it := s.pickItem(r)
			if s.cur >= 0 && len(s.msgs[s.cur].inserted) > 0 && r.Chance(2, 3) {
				ins := s.msgs[s.cur].inserted
				it = append([]byte(nil), ins[r.Intn(len(ins))]...)
				switch r.Intn(6) {
				case 0: // near miss: flip a bit
					if len(it) > 0 {
						it[r.Intn(len(it))] ^= 1 << uint(r.Intn(8))
					}
				case 1: // near miss: byte-reversed
					for i, j := 0, len(it)-1; i < j; i, j = i+1, j-1 {
						it[i], it[j] = it[j], it[i]
					}
				}
			}
			return kit.Op{K: k, D: kit.Hex(it)}, true
		case "unload":
			if r.Chance(1, 3) {
				return kit.Op{K: "reload_nil"}, true // Reload(nil): the other way to unload
			}
			return kit.Op{K: k}, true
		case "isloaded", "msg", "restart":
			if k == "restart" && s.cur < 0 {
				continue
			}
			return kit.Op{K: k}, true
		case "reload_new":
			return kit.Op{K: k, N: c09Shape(r)}, true
		case "reload_populated", "load_populated":
			// a message some peer populated: arbitrary bits, unknown items
			return kit.Op{K: k, N: append(c09Shape(r), int64(r.Intn(5)), int64(r.U32()))}, true
		case "reload_old":
			if len(s.msgs) == 0 {
				continue
			}
			return kit.Op{K: k, H: r.Intn(len(s.msgs))}, true
		case "newfilter":
			return s.genNewFilter(r), true
		case "load":
			return kit.Op{K: k, N: c09Shape(r)}, true
		}
	}
}

func (s *c09) genNewFilter(r *kit.Rng) kit.Op {
	elems := []uint32{0, 1, 2, 3, 10, 100, 1000, 20000, 1000000, 1000000000, 0xffffffff, r.U32(), uint32(r.Range(1, 5000))}[r.Intn(13)]
	fps := []float64{-1, 0, 1e-300, 1e-12, 1e-9, 1e-6, 0.0001, 0.01, 0.5, 0.999, 1, 1.5, math.Inf(1), math.Inf(-1), math.NaN(), r.Float(), r.Float() * r.Float() * 0.01}
	fp := fps[r.Intn(len(fps))]
	return kit.Op{K: "newfilter", N: []int64{int64(elems), int64(r.U32()), int64(r.Intn(3)), int64(math.Float64bits(fp))}}
}

func (s *c09) pickItem(r *kit.Rng) []byte {
	if s.marathon {
		return r.Bytes(r.Range(1, 12))
	}
	if r.Chance(1, 8) || len(s.items) == 0 {
		return c09Item(r)
	}
	return s.items[r.Intn(len(s.items))]
}

func (s *c09) pickHash(r *kit.Rng) []byte {
	// distinguished values: the null outpoint's hash (coinbase inputs spend
	// 00..00:ffffffff), all-ones
	switch r.Intn(12) {
	case 0:
		return make([]byte, 32)
	case 1:
		return bytes.Repeat([]byte{0xff}, 32)
	}
	for _, it := range s.items {
		if len(it) == 32 && r.Chance(1, 2) {
			return it
		}
	}
	return r.Bytes(32)
}

// populate fills a fresh message pair with a drawn bit pattern.
func (s *c09) populate(i int, pattern int, seed uint32) {
	m := s.msgs[i]
	var bits []byte
	n := len(m.mod.Bits)
	switch pattern {
	case 0:
		bits = make([]byte, n)
	case 1:
		bits = bytes.Repeat([]byte{0xff}, n)
	case 2:
		bits = bytes.Repeat([]byte{0x01}, n) // only bit 0 of each byte
	case 3:
		bits = kit.NewRng(uint64(seed)).Bytes(n)
	default:
		bits = kit.NewRng(uint64(seed)).Bytes(n)
		mask := kit.NewRng(uint64(seed) + 1).Bytes(n)
		for k := range bits {
			bits[k] &= mask[k] // sparser
		}
	}
	copy(m.mod.Bits, bits)
	copy(m.real.Filter, bits)
	s.st.Probe("populated-message-loaded")
}

func (s *c09) newMsg(n int, hf, tw uint32, fl uint8) int {
	real := wire.NewMsgFilterLoad(make([]byte, n), hf, tw, wire.BloomUpdateType(fl))
	s.msgs = append(s.msgs, &c09Msg{real: real, mod: model.NewBloomMsg(n, hf, tw, fl)})
	return len(s.msgs) - 1
}

func (s *c09) setCur(i int) {
	s.cur = i
	if i < 0 {
		s.mb.Cur = nil
	} else {
		s.mb.Cur = s.msgs[i].mod
	}
}

func shapeOK(o kit.Op) (n int, hf, tw uint32, fl uint8, ok bool) {
	n = int(o.Arg(0))
	if n < 1 || n > 36000 || o.Arg(1) < 0 || o.Arg(1) > 50 || o.Arg(3) < 0 || o.Arg(3) > 2 {
		return 0, 0, 0, 0, false
	}
	return n, uint32(o.Arg(1)), uint32(o.Arg(2)), uint8(o.Arg(3)), true
}

func (s *c09) noteInsert(item []byte) {
	if s.cur < 0 {
		s.st.Probe("insert-while-unloaded")
		return
	}
	m := s.msgs[s.cur]
	m.inserted = append(m.inserted, append([]byte(nil), item...))
	s.inserted = true
	switch len(item) & 3 {
	case 1:
		s.st.Probe("tail-1")
	case 2:
		s.st.Probe("tail-2")
	case 3:
		s.st.Probe("tail-3")
	}
	if len(item) == 0 {
		s.st.Probe("empty-item")
	}
	if m.mod.HashFuncs == 0 {
		s.st.Probe("hashfuncs-0")
	}
	for i := uint32(0); i < m.mod.HashFuncs; i++ {
		if uint64(i)*0xFBA4C795%(1<<32)+uint64(m.mod.Tweak) >= 1<<32 {
			s.st.Probe("seed-add-wrapped")
		}
		if m.mod.BitIndex(i, item)/8 == uint32(len(m.mod.Bits)-1) {
			s.st.Probe("bit-in-last-byte")
		}
	}
	if len(m.mod.Bits) == 36000 {
		s.st.Probe("36000-byte-filter")
	}
}

func (s *c09) Apply(o kit.Op) *kit.Violation {
	s.c09H = s.hs[0]
	if o.S == "1" {
		s.c09H = s.hs[1]
		s.st.Probe("operation-on-second-handle")
	}
	if s.f == nil && o.K != "load" && o.K != "newfilter" && o.K != "load_populated" && o.K != "load_nil" && o.K != "load_shared" {
		return nil // skipped: no filter yet (possible after shrinking)
	}
	isFault := false
	switch o.K {
	case "load_shared":
		// a second Filter over a message object another handle may be using
		if s.f != nil || o.H < 0 || o.H >= len(s.msgs) {
			return nil
		}
		s.f = bloom.LoadFilter(s.msgs[o.H].real)
		s.setCur(o.H)
		s.st.Probe("two-filters-over-one-message")
	case "load_nil":
		if s.f != nil {
			return nil
		}
		s.f = bloom.LoadFilter(nil)
		s.setCur(-1)
		s.st.Probe("handle-created-unloaded")
	case "load", "load_populated":
		n, hf, tw, fl, ok := shapeOK(o)
		if !ok {
			return nil
		}
		i := s.newMsg(n, hf, tw, fl)
		if o.K == "load_populated" {
			s.populate(i, int(o.Arg(4)), uint32(o.Arg(5)))
		}
		s.f = bloom.LoadFilter(s.msgs[i].real)
		s.setCur(i)
	case "newfilter":
		fp := math.Float64frombits(uint64(o.Arg(3)))
		f := bloom.NewFilter(uint32(o.Arg(0)), uint32(o.Arg(1)), fp, wire.BloomUpdateType(o.Arg(2)))
		msg := f.MsgFilterLoad()
		if msg == nil {
			return kit.V("sizing:nil-message", "NewFilter(%d,%d,%v) has no message", o.Arg(0), o.Arg(1), fp)
		}
		if len(msg.Filter) > 36000 || msg.HashFuncs > 50 {
			return kit.V("sizing:exceeds-wire-limits", "NewFilter(elements=%d, fprate=%v): %d bytes, %d hash funcs", o.Arg(0), fp, len(msg.Filter), msg.HashFuncs)
		}
		if msg.Tweak != uint32(o.Arg(1)) || msg.Flags != wire.BloomUpdateType(o.Arg(2)) {
			return kit.V("sizing:parameters-altered", "tweak/flags not preserved: %d/%d", msg.Tweak, msg.Flags)
		}
		for _, b := range msg.Filter {
			if b != 0 {
				return kit.V("sizing:not-empty", "fresh filter has bits set")
			}
		}
		if !f.IsLoaded() {
			return kit.V("sizing:not-loaded", "fresh filter not loaded")
		}
		s.st.Probe("newfilter")
		if len(msg.Filter) == 36000 {
			s.st.Probe("newfilter-clamped-size")
		}
		if msg.HashFuncs == 50 {
			s.st.Probe("newfilter-clamped-hashfuncs")
		}
		if len(msg.Filter) == 0 {
			// outside the statement's 1..36000-byte domain: keep the previous filter
			s.st.Probe("newfilter-empty")
			return nil
		}
		s.msgs = append(s.msgs, &c09Msg{real: msg, mod: model.NewBloomMsg(len(msg.Filter), msg.HashFuncs, msg.Tweak, uint8(msg.Flags))})
		s.f = f
		s.setCur(len(s.msgs) - 1)
	case "add":
		d := o.Data()
		s.f.Add(d)
		s.mb.Add(d)
		s.noteInsert(d)
	case "addhash":
		d := o.Data()
		if len(d) != 32 {
			return nil
		}
		var h chainhash.Hash
		copy(h[:], d)
		s.f.AddHash(&h)
		s.mb.Add(d)
		s.noteInsert(d)
	case "addop":
		d := o.Data()
		if len(d) != 32 {
			return nil
		}
		var h chainhash.Hash
		copy(h[:], d)
		s.f.AddOutPoint(wire.NewOutPoint(&h, uint32(o.Arg(0))))
		item := model.OutPointBytes(h, uint32(o.Arg(0)))
		s.mb.Add(item)
		s.noteInsert(item)
	case "match":
		d := o.Data()
		got, want := s.f.Matches(d), s.mb.Matches(d)
		if s.inserted && s.faultAfter {
			s.queryAfter = true
		}
		if got != want {
			return kit.V("model-mismatch:Matches", "Matches(%x) = %v, BIP37 model says %v", d, got, want)
		}
	case "matchop":
		d := o.Data()
		if len(d) != 32 {
			return nil
		}
		var h chainhash.Hash
		copy(h[:], d)
		got := s.f.MatchesOutPoint(wire.NewOutPoint(&h, uint32(o.Arg(0))))
		want := s.mb.Matches(model.OutPointBytes(h, uint32(o.Arg(0))))
		if s.inserted && s.faultAfter {
			s.queryAfter = true
		}
		if got != want {
			return kit.V("model-mismatch:MatchesOutPoint", "MatchesOutPoint(%x:%d) = %v, BIP37 model says %v", d, o.Arg(0), got, want)
		}
	case "isloaded":
		if got := s.f.IsLoaded(); got != (s.cur >= 0) {
			return kit.V("model-mismatch:IsLoaded", "IsLoaded() = %v, model %v", got, s.cur >= 0)
		}
	case "msg":
		got := s.f.MsgFilterLoad()
		if s.cur < 0 && got != nil || s.cur >= 0 && got != s.msgs[s.cur].real {
			return kit.V("model-mismatch:MsgFilterLoad", "MsgFilterLoad() returned another object than the one loaded")
		}
	case "unload":
		isFault = true
		s.f.Unload()
		s.setCur(-1)
		s.st.Fault("unload")
	case "reload_nil":
		isFault = true
		s.f.Reload(nil)
		s.setCur(-1)
		s.st.Fault("reload-nil")
	case "reload_new", "reload_populated":
		n, hf, tw, fl, ok := shapeOK(o)
		if !ok {
			return nil
		}
		isFault = true
		i := s.newMsg(n, hf, tw, fl)
		if o.K == "reload_populated" {
			s.populate(i, int(o.Arg(4)), uint32(o.Arg(5)))
			s.st.Fault("reload-populated-message")
		} else {
			s.st.Fault("reload-fresh")
		}
		s.f.Reload(s.msgs[i].real)
		s.setCur(i)
	case "reload_old":
		if o.H < 0 || o.H >= len(s.msgs) {
			return nil
		}
		isFault = true
		s.f.Reload(s.msgs[o.H].real)
		s.setCur(o.H)
		s.st.Fault("reload-earlier-object")
		if len(s.msgs[o.H].inserted) > 0 {
			s.st.Probe("reload-of-old-object-with-items")
		}
	case "restart":
		// restart from durable state: what a peer does with a filterload it
		// receives - serialise, decode, LoadFilter on a brand-new handle.
		if s.cur < 0 {
			return nil
		}
		isFault = true
		var buf bytes.Buffer
		if err := s.msgs[s.cur].real.BchEncode(&buf, wire.ProtocolVersion, wire.BaseEncoding); err != nil {
			return kit.V("restart:encode-failed", "%v", err)
		}
		var dec wire.MsgFilterLoad
		if err := dec.BchDecode(&buf, wire.ProtocolVersion, wire.BaseEncoding); err != nil {
			return kit.V("restart:decode-failed", "%v", err)
		}
		old := s.msgs[s.cur]
		s.msgs = append(s.msgs, &c09Msg{real: &dec, mod: old.mod.Clone(), inserted: append([][]byte(nil), old.inserted...)})
		s.f = bloom.LoadFilter(&dec)
		s.setCur(len(s.msgs) - 1)
		s.st.Fault("restart-from-wire")
	}
	if isFault && s.inserted {
		s.faultAfter = true
	}
	return nil
}

func (s *c09) Check() *kit.Violation {
	for i, m := range s.msgs {
		if !bytes.Equal(m.real.Filter, m.mod.Bits) {
			j := 0
			for j < len(m.mod.Bits) && j < len(m.real.Filter) && m.real.Filter[j] == m.mod.Bits[j] {
				j++
			}
			state := "loaded"
			if i != s.cur {
				state = "not loaded"
			}
			return kit.V("invariant:bits-differ-from-BIP37", "message object %d (%s): first differing byte %d of %d: real %#02x model %#02x", i, state, j, len(m.mod.Bits), at(m.real.Filter, j), at(m.mod.Bits, j))
		}
		if m.real.HashFuncs != m.mod.HashFuncs || m.real.Tweak != m.mod.Tweak || uint8(m.real.Flags) != m.mod.Flags {
			return kit.V("invariant:parameters-changed", "message object %d parameters changed", i)
		}
	}
	for hi, h := range s.hs {
		if h.f == nil {
			continue
		}
		s.c09H = h
		if v := s.checkHandle(); v != nil {
			v.Detail = fmt.Sprintf("handle %d: %s", hi, v.Detail)
			return v
		}
	}
	return nil
}

func (s *c09) checkHandle() *kit.Violation {
	if got := s.f.IsLoaded(); got != (s.cur >= 0) {
		return kit.V("invariant:load-state", "IsLoaded() = %v, model %v", got, s.cur >= 0)
	}
	got := s.f.MsgFilterLoad()
	if s.cur < 0 {
		if got != nil {
			return kit.V("invariant:load-state", "unloaded filter returns a message")
		}
		// an unloaded filter matches nothing
		for _, m := range s.msgs {
			for k, it := range m.inserted {
				if k >= 4 {
					break
				}
				if s.f.Matches(it) {
					return kit.V("invariant:unloaded-filter-matches", "unloaded filter reports %x present", it)
				}
			}
		}
		if s.f.Matches(nil) || s.f.Matches([]byte{}) {
			return kit.V("invariant:unloaded-filter-matches", "unloaded filter reports the empty item present")
		}
		return nil
	}
	cur := s.msgs[s.cur]
	if got != cur.real {
		return kit.V("invariant:load-state", "MsgFilterLoad() is not the loaded object")
	}
	// no false negatives: everything inserted into the loaded object since
	// its creation is reported present by the real filter
	ins := cur.inserted
	check := func(it []byte) *kit.Violation {
		ok := s.f.Matches(it)
		if ok && len(it) == 36 {
			var h chainhash.Hash
			copy(h[:], it[:32])
			ok = s.f.MatchesOutPoint(wire.NewOutPoint(&h, uint32(it[32])|uint32(it[33])<<8|uint32(it[34])<<16|uint32(it[35])<<24))
		}
		if !ok {
			return kit.V("invariant:false-negative", "inserted item %x is reported absent", it)
		}
		return nil
	}
	// newest first, then the oldest; bounded work per step (very long items
	// times many hash functions would otherwise dominate long histories)
	budget := 400000
	try := func(it []byte) *kit.Violation {
		cost := (len(it) + 16) * int(cur.mod.HashFuncs+1)
		if budget < cost && budget < 400000 {
			return nil
		}
		budget -= cost
		return check(it)
	}
	for k := len(ins) - 1; k >= 0 && k >= len(ins)-24; k-- {
		if v := try(ins[k]); v != nil {
			return v
		}
	}
	for k := 0; k < len(ins)-24 && k < 24; k++ {
		if v := try(ins[k]); v != nil {
			return v
		}
	}
	return nil
}

func at(b []byte, i int) byte {
	if i < len(b) {
		return b[i]
	}
	return 0
}

func (s *c09) NonTrivial() bool { return s.inserted && s.faultAfter && s.queryAfter }

// C09 returns the engine.
func C09() kit.Engine {
	return &kit.SeqEngine{
		Id:  "C09",
		New: func(st *kit.Stats) kit.SeqSim { return &c09{st: st} },
		Desc: kit.Description{
			Rule: "one run = one drawn history on one or two filter handles that may load the same message objects (shape, op mix and length drawn per run; items incl. lengths around powers of two, distinguished hashes; Unload / Reload(nil) / Reload(fresh) / Reload(populated) / Reload(earlier object) / restart-from-wire / LoadFilter of an existing message injected at drawn points), every message object's bits and every answer compared step by step with an independent BIP37 model; non-trivial = at least one insertion, then at least one fault operation, then at least one membership query; distinct = distinct FNV-64 signature of the executed op list",
			RealVsStub: map[string]string{
				"bloom.Filter, bloom.MurmurHash3, bloom.NewFilter/LoadFilter": "real (from /repo working tree)",
				"wire.MsgFilterLoad encode/decode (restart)":                  "real dependency (bchd/wire)",
				"BIP37 bit model + MurmurHash3":                               "reference model (verif/sim/model), self-tested on published vectors",
				"network / disk / clock":                                      "none exist in this code path",
			},
			Assumptions: []string{"bchd/wire serialises filterload messages faithfully", "empty (0-byte) filters are outside the statement's 1..36000-byte domain and receive no insert/match operations"},
		},
		Simplify_: simplifyC09,
	}
}

// simplifyC09 shrinks arguments: smaller filters, fewer hash functions,
// zero tweak, shorter items.
func simplifyC09(t *kit.Trace) []*kit.Trace {
	var out []*kit.Trace
	for i, o := range t.Ops {
		switch o.K {
		case "load", "reload_new":
			for _, alt := range [][]int64{{1, o.Arg(1), o.Arg(2), o.Arg(3)}, {o.Arg(0) / 2, o.Arg(1), o.Arg(2), o.Arg(3)}, {o.Arg(0), 1, o.Arg(2), o.Arg(3)}, {o.Arg(0), o.Arg(1) / 2, o.Arg(2), o.Arg(3)}, {o.Arg(0), o.Arg(1), 0, o.Arg(3)}, {o.Arg(0), o.Arg(1), o.Arg(2), 0}} {
				if alt[0] < 1 || (alt[0] == o.Arg(0) && alt[1] == o.Arg(1) && alt[2] == o.Arg(2) && alt[3] == o.Arg(3)) {
					continue
				}
				c := t.Clone()
				c.Ops[i].N = alt
				out = append(out, c)
			}
		case "add", "match":
			d := o.Data()
			if len(d) > 1 {
				c := t.Clone()
				c.Ops[i].D = kit.Hex(d[:len(d)/2])
				out = append(out, c)
				c = t.Clone()
				c.Ops[i].D = kit.Hex(d[:len(d)-1])
				out = append(out, c)
			}
		}
	}
	return out
}
