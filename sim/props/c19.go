package props

import (
	"fmt"
	"math"
	"math/big"
	"sort"
	"strings"

	"github.com/gcash/bchd/chaincfg/chainhash"
	"github.com/gcash/bchd/wire"
	"github.com/gcash/bchutil"
	"github.com/gcash/bchutil/coinset"

	"verif/sim/kit"
)

// C19: push / pop / shift history on one CoinSet with a model deque, the
// four selectors applied to the set's current contents with parameters drawn
// per step and judged by the contracts exactly as the statement words them.

// hcoin is a harness coin with a constant value-age.
type hcoin struct {
	hash  chainhash.Hash
	index uint32
	value bchutil.Amount
	confs int64
	id    int
}

func (c *hcoin) Hash() *chainhash.Hash { return &c.hash }
func (c *hcoin) Index() uint32         { return c.index }
func (c *hcoin) Value() bchutil.Amount { return c.value }
func (c *hcoin) PkScript() []byte      { return nil }
func (c *hcoin) NumConfs() int64       { return c.confs }
func (c *hcoin) ValueAge() int64       { return int64(c.value) * c.confs }

type c19 struct {
	st    *kit.Stats
	known map[string]bool
	hit   func(kit.Violation)

	pool []coinset.Coin
	// two sets built from overlapping sub-slices of ONE caller-owned list:
	// a set that adopted its caller's slice would show up as the other set's
	// contents changing without any push, pop or shift on it
	shared []coinset.Coin
	sets   [2]*coinset.CoinSet
	deques [2][]coinset.Coin
	set    *coinset.CoinSet // the set the current operation addresses
	deque  []coinset.Coin
	cur    int

	maxSteps, steps   int
	bigSet            bool
	offerBuf          []coinset.Coin
	lastSel           coinset.Coins
	lastSelCoins      []coinset.Coin
	hugeSet           bool
	churn             bool
	giant             bool
	mutated, selected bool
}

func (s *c19) SetKnown(known map[string]bool, hit func(kit.Violation)) { s.known, s.hit = known, hit }

func (s *c19) Start(r *kit.Rng, cfg map[string]int64) {
	if r == nil {
		return
	}
	s.maxSteps = r.Range(4, 40*kit.Depth)
	if r.Chance(1, 10) {
		// a set that grows well beyond a dozen coins
		s.bigSet = true
		s.maxSteps = r.Range(40, 70)
		if r.Chance(1, 3) {
			s.hugeSet = true // beyond 32 coins
			s.maxSteps = r.Range(90, 130)
		}
	}
	if !s.bigSet && r.Chance(1, 120) {
		// queue churn: hundreds of pushes and shifts on a set that never
		// empties (ring buffers, head indices, compaction thresholds)
		s.churn = true
		s.bigSet = true
		s.hugeSet = true
		s.maxSteps = r.Range(500, 1000)
		if r.Chance(1, 3) {
			s.giant = true // several hundred coins
			s.maxSteps = r.Range(900, 1300)
		}
	}
	cfg["max_steps"] = int64(s.maxSteps)
}

func c19Value(r *kit.Rng) int64 {
	switch r.Intn(10) {
	case 0:
		return 0
	case 1, 2, 3:
		return int64(r.Range(1, 10)) // small, ties likely
	case 4, 5:
		return int64(r.Range(1, 10)) * 1000
	case 6:
		return int64(r.Range(1, 1000000))
	case 7:
		return 2100000000000000 // the 21e6-coin cap
	default:
		return int64(r.Range(1, 100))
	}
}

func c19Confs(r *kit.Rng, value int64) int64 {
	if value > 1000000000 {
		return int64(r.Range(0, 3))
	}
	switch r.Intn(5) {
	case 0:
		return 0
	case 1:
		return 1
	case 2:
		return int64(r.Range(0, 10))
	default:
		return int64(r.Range(0, 1000))
	}
}

func (s *c19) Gen(r *kit.Rng) (kit.Op, bool) {
	if s.steps >= s.maxSteps {
		return kit.Op{}, false
	}
	s.steps++
	if s.sets[0] == nil {
		// a few coins first, then the set
		if len(s.pool) < 2 || (len(s.pool) < 12 && r.Chance(2, 3)) {
			return s.genCoin(r), true
		}
		return s.genNewSet(r, 0), true
	}
	if s.sets[1] == nil && r.Chance(1, 6) {
		return s.genNewSet(r, 1), true
	}
	si := 0
	if s.sets[1] != nil && r.Chance(1, 2) {
		si = 1
	}
	s.use(si)
	op, ok := s.genSetOp(r)
	if op.K != "coin" {
		if op.K == "push" {
			op.N = []int64{int64(si)}
		} else {
			op.H = si
		}
	}
	return op, ok
}

func (s *c19) use(i int) {
	s.cur = i
	s.set, s.deque = s.sets[i], s.deques[i]
}

func (s *c19) store() {
	s.deques[s.cur] = s.deque
}

func (s *c19) genNewSet(r *kit.Rng, which int) kit.Op {
	n := len(s.pool)
	if which == 0 && r.Chance(1, 5) {
		return kit.Op{K: "newset", H: which, S: "nil"}
	}
	a := r.Intn(n + 1)
	b := a + r.Intn(n-a+1)
	return kit.Op{K: "newset", H: which, S: fmt.Sprintf("%d:%d", a, b)}
}

func (s *c19) genSetOp(r *kit.Rng) (kit.Op, bool) {
	k := r.Intn(16)
	if s.churn {
		// push while below ~40 coins, else shift; selections are rare
		switch {
		case r.Chance(1, 25):
			k = 12
		case s.giant && (len(s.deque) < 260 || (len(s.deque) < 300 && r.Chance(3, 5))):
			k = r.Intn(5)
		case !s.giant && (len(s.deque) < 70 || (len(s.deque) < 110 && r.Chance(3, 5))):
			k = r.Intn(5)
		default:
			k = 7
			s.st.Probe("churn-shift")
		}
	}
	limit := 16
	if s.bigSet {
		limit = 24
		if s.giant {
			limit = 420
		} else if s.churn {
			limit = 200
		} else if s.hugeSet {
			limit = 48
			if len(s.deque) > 32 {
				s.st.Probe("set-with-more-than-32-coins")
			}
		}
		if k >= 5 && k <= 8 && r.Chance(3, 4) {
			k = r.Intn(5) // mostly grow
		}
		if len(s.deque) > 15 {
			s.st.Probe("set-with-more-than-15-coins")
		}
	}
	switch k {
	case 0, 1:
		if len(s.pool) < limit {
			return s.genCoin(r), true
		}
		fallthrough
	case 2, 3, 4:
		// a coin not currently in the set
		var free []int
		for i, c := range s.pool {
			if !s.inAnySet(c) {
				free = append(free, i)
			}
		}
		if len(free) == 0 {
			return s.genCoin(r), true
		}
		return kit.Op{K: "push", H: free[r.Intn(len(free))]}, true
	case 5, 6:
		return kit.Op{K: "pop"}, true
	case 7, 8:
		return kit.Op{K: "shift"}, true
	case 9:
		return kit.Op{K: "mktx", N: []int64{int64(r.Range(1, 2))}}, true
	default:
		return s.genSelect(r), true
	}
}

func (s *c19) inAnySet(c coinset.Coin) bool {
	for _, dq := range s.deques {
		for _, d := range dq {
			if d == c {
				return true
			}
		}
	}
	return false
}

func (s *c19) genCoin(r *kit.Rng) kit.Op {
	v := c19Value(r)
	return kit.Op{K: "coin", N: []int64{v, c19Confs(r, v), int64(r.Intn(2)), int64(r.Intn(4))}, D: kit.Hex(r.Bytes(8))}
}

func (s *c19) genSelect(r *kit.Rng) kit.Op {
	sum := int64(0)
	var vas []int64
	for _, c := range s.deque {
		sum += int64(c.Value())
		vas = append(vas, c.ValueAge())
	}
	n := len(s.deque)
	var target int64
	switch r.Intn(6) {
	case 0:
		target = sum
	case 1:
		target = sum + int64(r.Range(1, 2))
	case 2:
		if n > 0 {
			target = int64(s.deque[r.Intn(n)].Value())
		}
	default:
		if sum > 0 {
			target = 1 + int64(r.U64()%uint64(sum))
		}
	}
	if target < 1 {
		target = 1
	}
	maxIn := r.Range(-1, n+2)
	if r.Chance(1, 12) {
		// "no limit" as callers spell it
		maxIn = []int{math.MaxInt32, math.MaxInt, math.MinInt, 1 << 20}[r.Intn(4)]
	}
	if r.Chance(1, 2) {
		maxIn = r.Range(1, n+1)
	}
	var minChange int64
	switch r.Intn(4) {
	case 0:
		minChange = 0
	case 1:
		minChange = 1
	default:
		minChange = int64(r.Range(0, 12))
	}
	var minVA int64
	switch r.Intn(4) {
	case 0:
		minVA = 0
	case 1:
		if len(vas) > 0 {
			minVA = vas[r.Intn(len(vas))] + int64(r.Range(-1, 1))
		}
	case 2:
		if len(vas) > 0 {
			t := int64(0)
			for _, v := range vas {
				t += v / int64(len(vas))
			}
			minVA = t
		}
	default:
		minVA = int64(r.Range(0, 2000))
	}
	if minVA < 0 {
		minVA = 0
	}
	return kit.Op{K: "select", N: []int64{int64(r.Intn(4)), target, int64(maxIn), minChange, minVA}}
}

func (s *c19) Apply(o kit.Op) *kit.Violation {
	switch o.K {
	case "coin":
		if len(s.pool) >= 420 || o.Arg(0) < 0 || o.Arg(1) < 0 {
			return nil
		}
		id := len(s.pool)
		var h chainhash.Hash
		copy(h[:], o.Data())
		h[31], h[30] = byte(id), byte(id>>8)
		if o.Arg(2) == 1 {
			// a real SimpleCoin over a real transaction
			tx := wire.NewMsgTx(1)
			tx.AddTxIn(&wire.TxIn{PreviousOutPoint: wire.OutPoint{Hash: h, Index: uint32(id)}})
			outIdx := int(o.Arg(3))
			for i := 0; i <= outIdx; i++ {
				v := int64(7 + i)
				if i == outIdx {
					v = o.Arg(0)
				}
				tx.AddTxOut(&wire.TxOut{Value: v, PkScript: []byte{0x51}})
			}
			s.pool = append(s.pool, &coinset.SimpleCoin{Tx: bchutil.NewTx(tx), TxIndex: uint32(outIdx), TxNumConfs: o.Arg(1)})
			s.st.Probe("simplecoin")
		} else {
			s.pool = append(s.pool, &hcoin{hash: h, index: uint32(o.Arg(3)), value: bchutil.Amount(o.Arg(0)), confs: o.Arg(1), id: id})
		}
	case "newset":
		if o.H < 0 || o.H > 1 || s.sets[o.H] != nil {
			return nil
		}
		var init []coinset.Coin
		if o.S != "nil" {
			if s.shared == nil {
				s.shared = append([]coinset.Coin(nil), s.pool...)
			}
			var a, b int
			if _, err := fmt.Sscanf(o.S, "%d:%d", &a, &b); err != nil || a < 0 || b < a || b > len(s.shared) {
				return nil
			}
			// no coin in two sets at once
			for _, c := range s.shared[a:b] {
				if s.inAnySet(c) {
					return nil
				}
			}
			init = s.shared[a:b] // a sub-slice WITH spare capacity behind it
			if o.H == 1 {
				s.st.Probe("two-sets-over-one-caller-list")
			}
		}
		s.sets[o.H] = coinset.NewCoinSet(init)
		s.deques[o.H] = append([]coinset.Coin(nil), init...)
		s.use(o.H)
	case "push":
		si := int(o.Arg(0))
		if si < 0 || si > 1 || s.sets[si] == nil || o.H < 0 || o.H >= len(s.pool) {
			return nil
		}
		s.use(si)
		if s.inAnySet(s.pool[o.H]) {
			return nil
		}
		s.set.PushCoin(s.pool[o.H])
		s.deque = append(s.deque, s.pool[o.H])
		s.store()
		s.mutated = true
	case "pop":
		if o.H < 0 || o.H > 1 || s.sets[o.H] == nil {
			return nil
		}
		s.use(o.H)
		got := s.set.PopCoin()
		s.mutated = true
		if len(s.deque) == 0 {
			s.st.Probe("pop-on-empty")
			if got != nil {
				return kit.V("coinset:pop-on-empty-returned-coin", "PopCoin on an empty set returned a coin")
			}
			return nil
		}
		want := s.deque[len(s.deque)-1]
		s.deque = append([]coinset.Coin(nil), s.deque[:len(s.deque)-1]...)
		s.store()
		if got != want {
			return kit.V("coinset:wrong-coin-removed", "PopCoin returned another coin than the last one")
		}
	case "shift":
		if o.H < 0 || o.H > 1 || s.sets[o.H] == nil {
			return nil
		}
		s.use(o.H)
		got := s.set.ShiftCoin()
		s.mutated = true
		if len(s.deque) == 0 {
			s.st.Probe("shift-on-empty")
			if got != nil {
				return kit.V("coinset:shift-on-empty-returned-coin", "ShiftCoin on an empty set returned a coin")
			}
			return nil
		}
		want := s.deque[0]
		s.deque = append([]coinset.Coin(nil), s.deque[1:]...)
		s.store()
		if got != want {
			return kit.V("coinset:wrong-coin-removed", "ShiftCoin returned another coin than the first one")
		}
	case "mktx":
		if o.H < 0 || o.H > 1 || s.sets[o.H] == nil {
			return nil
		}
		s.use(o.H)
		tx := coinset.NewMsgTxWithInputCoins(int32(o.Arg(0)), s.set)
		if tx == nil || tx.Version != int32(o.Arg(0)) {
			return kit.V("coinset:built-transaction-wrong", "built transaction missing or wrong version")
		}
		if len(tx.TxIn) != len(s.deque) {
			return kit.V("coinset:built-transaction-wrong", "built transaction has %d inputs for %d coins", len(tx.TxIn), len(s.deque))
		}
		for i, in := range tx.TxIn {
			c := s.deque[i]
			if in.PreviousOutPoint.Hash != *c.Hash() || in.PreviousOutPoint.Index != c.Index() {
				return kit.V("coinset:built-transaction-wrong", "input %d spends %v, coin %d is %v:%d", i, in.PreviousOutPoint, i, c.Hash(), c.Index())
			}
		}
		if len(tx.TxOut) != 0 {
			return kit.V("coinset:built-transaction-wrong", "built transaction has outputs")
		}
	case "select":
		if o.H < 0 || o.H > 1 || s.sets[o.H] == nil {
			return nil
		}
		s.use(o.H)
		s.selected = true
		return s.checkSelect(int(o.Arg(0)), o.Arg(1), int(o.Arg(2)), o.Arg(3), o.Arg(4))
	}
	return nil
}

var selNames = []string{"MinIndexCoinSelector", "MinNumberCoinSelector", "MaxValueAgeCoinSelector", "MinPriorityCoinSelector"}

func bigSum(cs []coinset.Coin, f func(coinset.Coin) int64) *big.Int {
	t := new(big.Int)
	for _, c := range cs {
		t.Add(t, big.NewInt(f(c)))
	}
	return t
}

func valOf(c coinset.Coin) int64 { return int64(c.Value()) }
func vaOf(c coinset.Coin) int64  { return c.ValueAge() }

// qualifies is the statement's predicate: total equals the target or exceeds
// it by at least the minimum change.
func qualifies(total *big.Int, target, minChange int64) bool {
	t := big.NewInt(target)
	if total.Cmp(t) == 0 {
		return true
	}
	return total.Cmp(new(big.Int).Add(t, big.NewInt(minChange))) >= 0
}

// report routes a selector violation: listed known findings are recorded and
// do not end the run (selectors are stateless).
func (s *c19) report(v *kit.Violation) *kit.Violation {
	if s.known[v.Key] && s.hit != nil {
		s.hit(*v)
		return nil
	}
	return v
}

func (s *c19) checkSelect(which int, target int64, maxIn int, minChange, minVA int64) *kit.Violation {
	if which < 0 || which > 3 || target < 1 || minChange < 0 || minVA < 0 {
		return nil
	}
	if which == 3 && s.set.Num() > 48 {
		// the min-priority selector's nested search grows too fast for the
		// very large sets of the churn profile; the sort-based ones are used there
		which = 1 + s.set.Num()%2
	}
	// the offered list lives in ONE caller-owned buffer that is overwritten in
	// place from call to call (what a wallet does with its candidate list):
	// a selector that remembers a list by its address must not be fooled
	cur := s.set.Coins()
	if cap(s.offerBuf) < 512 {
		s.offerBuf = make([]coinset.Coin, 0, 512)
	}
	offered := append(s.offerBuf[:0], cur...)
	before := append([]coinset.Coin(nil), offered...)
	var sel coinset.CoinSelector
	switch which {
	case 0:
		sel = coinset.MinIndexCoinSelector{MaxInputs: maxIn, MinChangeAmount: bchutil.Amount(minChange)}
	case 1:
		sel = coinset.MinNumberCoinSelector{MaxInputs: maxIn, MinChangeAmount: bchutil.Amount(minChange)}
	case 2:
		sel = coinset.MaxValueAgeCoinSelector{MaxInputs: maxIn, MinChangeAmount: bchutil.Amount(minChange)}
	default:
		sel = coinset.MinPriorityCoinSelector{MaxInputs: maxIn, MinChangeAmount: bchutil.Amount(minChange), MinAvgValueAgePerInput: minVA}
	}
	res, err := sel.CoinSelect(bchutil.Amount(target), offered)
	// the selection returned by the PREVIOUS call is still the caller's
	if s.lastSel != nil {
		now := s.lastSel.Coins()
		same := len(now) == len(s.lastSelCoins)
		for i := 0; same && i < len(now); i++ {
			same = now[i] == s.lastSelCoins[i]
		}
		if !same {
			return s.report(kit.VK("selector:earlier-selection-changed", "selector:earlier-selection-changed", "a selection returned by an earlier CoinSelect call (%s) changed when CoinSelect was called again: it now holds %s", describeCoins(s.lastSelCoins), describeCoins(now)))
		}
	}
	s.lastSel, s.lastSelCoins = nil, nil
	if err == nil && res != nil {
		s.lastSel, s.lastSelCoins = res, append([]coinset.Coin(nil), res.Coins()...)
	}
	name := selNames[which]
	params := fmt.Sprintf("%s{MaxInputs:%d MinChange:%d MinAvgValueAge:%d}.CoinSelect(target=%d, %s)", name, maxIn, minChange, minVA, target, describeCoins(before))
	if err != nil {
		s.st.Probe(name + "-failed")
		if res != nil {
			return s.report(kit.VK("selector:result-with-error", "selector:result-with-error:"+name, "%s returned a selection together with an error", params))
		}
		// failure direction, where the statement determines the answer
		limit := maxIn
		if limit > len(before) {
			limit = len(before)
		}
		var order []coinset.Coin
		switch which {
		case 0:
			order = before
		case 1:
			order = sortedDesc(before, valOf)
		case 2:
			if !prefixSumsDetermined(before) {
				s.st.Probe("value-age-ties-with-different-values")
				return nil
			}
			order = sortedDesc(before, vaOf)
		default:
			return nil // min-priority makes no promise to find a selection
		}
		t := new(big.Int)
		for k := 0; k < limit; k++ {
			t.Add(t, big.NewInt(valOf(order[k])))
			if qualifies(t, target, minChange) {
				return s.report(kit.VK("selector:qualifying-prefix-not-returned", "selector:qualifying-prefix-not-returned:"+name, "%s failed although the first %d coins of its order qualify (total %v)", params, k+1, t))
			}
		}
		return nil
	}
	s.st.Probe(name + "-succeeded")
	if res == nil {
		return s.report(kit.VK("selector:nil-without-error", "selector:nil-without-error:"+name, "%s returned neither selection nor error", params))
	}
	got := res.Coins()
	desc := params + " -> " + describeCoins(got)
	// distinct coins taken from the offered list
	seen := map[coinset.Coin]bool{}
	for _, c := range got {
		in := false
		for _, b := range before {
			if b == c {
				in = true
			}
		}
		if !in {
			return s.report(kit.VK("selector:coin-not-from-offered-list", "selector:coin-not-from-offered-list:"+name, "%s", desc))
		}
		if seen[c] {
			return s.report(kit.VK("selector:coin-selected-twice", "selector:coin-selected-twice:"+name, "%s", desc))
		}
		seen[c] = true
	}
	if len(got) > maxIn {
		if which == 3 {
			s.st.Probe("minpriority-maxinputs-exceeded")
		}
		return s.report(kit.VK("selector:max-inputs-exceeded", "selector:max-inputs-exceeded:"+name, "%d coins selected, MaxInputs %d: %s", len(got), maxIn, desc))
	}
	total := bigSum(got, valOf)
	if !qualifies(total, target, minChange) {
		return s.report(kit.VK("selector:total-neither-target-nor-target-plus-change", "selector:total-neither-target-nor-target-plus-change:"+name, "total %v is neither the target %d nor at least target+minChange %d: %s", total, target, target+minChange, desc))
	}
	if total.Cmp(big.NewInt(target)) == 0 {
		s.st.Probe("exact-target-hit")
	}
	if len(got) == maxIn {
		s.st.Probe("max-inputs-binding")
	}
	switch which {
	case 0:
		for i, c := range got {
			if i >= len(before) || before[i] != c {
				return s.report(kit.VK("selector:not-a-prefix", "selector:not-a-prefix:"+name, "selection is not a prefix of the offered list: %s", desc))
			}
		}
		if v := s.noShorterPrefix(got, target, minChange, name, desc); v != nil {
			return v
		}
	case 1, 2:
		key := valOf
		if which == 2 {
			key = vaOf
		}
		for i := 1; i < len(got); i++ {
			if key(got[i]) > key(got[i-1]) {
				return s.report(kit.VK("selector:not-descending", "selector:not-descending:"+name, "selection is not in descending order of its key: %s", desc))
			}
		}
		if len(got) > 0 {
			last := key(got[len(got)-1])
			for _, b := range before {
				if !seen[b] && key(b) > last {
					return s.report(kit.VK("selector:larger-coin-left-out", "selector:larger-coin-left-out:"+name, "an unselected coin has a larger key than the last selected one: %s", desc))
				}
			}
		}
		if v := s.noShorterPrefix(got, target, minChange, name, desc); v != nil {
			return v
		}
	case 3:
		need := new(big.Int).Mul(big.NewInt(minVA), big.NewInt(int64(len(got))))
		if bigSum(got, vaOf).Cmp(need) < 0 {
			return s.report(kit.VK("selector:average-value-age-below-minimum", "selector:average-value-age-below-minimum:"+name, "total value-age %v over %d inputs is below the required average %d: %s", bigSum(got, vaOf), len(got), minVA, desc))
		}
	}
	return nil
}

func (s *c19) noShorterPrefix(got []coinset.Coin, target, minChange int64, name, desc string) *kit.Violation {
	t := new(big.Int)
	for k := 0; k+1 < len(got); k++ {
		t.Add(t, big.NewInt(valOf(got[k])))
		if qualifies(t, target, minChange) {
			return s.report(kit.VK("selector:shorter-prefix-qualifies", "selector:shorter-prefix-qualifies:"+name, "the first %d selected coins already qualify: %s", k+1, desc))
		}
	}
	return nil
}

func sortedDesc(cs []coinset.Coin, key func(coinset.Coin) int64) []coinset.Coin {
	out := append([]coinset.Coin(nil), cs...)
	sort.SliceStable(out, func(i, j int) bool { return key(out[i]) > key(out[j]) })
	return out
}

// prefixSumsDetermined: coins with equal value-age also have equal value, so
// every tie order gives the same prefix totals.
func prefixSumsDetermined(cs []coinset.Coin) bool {
	m := map[int64]int64{}
	for _, c := range cs {
		if v, ok := m[vaOf(c)]; ok && v != valOf(c) {
			return false
		}
		m[vaOf(c)] = valOf(c)
	}
	return true
}

func describeCoins(cs []coinset.Coin) string {
	var p []string
	for _, c := range cs {
		p = append(p, fmt.Sprintf("%dx%d", int64(c.Value()), c.NumConfs()))
	}
	return "[" + strings.Join(p, " ") + "] (value x confirmations)"
}

func (s *c19) Check() *kit.Violation {
	for i := range s.sets {
		if s.sets[i] == nil {
			continue
		}
		if v := checkSet(i, s.sets[i], s.deques[i]); v != nil {
			return v
		}
	}
	return nil
}

func checkSet(i int, set *coinset.CoinSet, deque []coinset.Coin) *kit.Violation {
	if set.Num() != len(deque) {
		return kit.V("coinset:count-drifted", "set %d: Num() = %d, contents %d", i, set.Num(), len(deque))
	}
	if big.NewInt(int64(set.TotalValue())).Cmp(bigSum(deque, valOf)) != 0 {
		return kit.V("coinset:total-value-drifted", "set %d: TotalValue() = %d, sum over contents %v", i, set.TotalValue(), bigSum(deque, valOf))
	}
	if big.NewInt(set.TotalValueAge()).Cmp(bigSum(deque, vaOf)) != 0 {
		return kit.V("coinset:total-value-age-drifted", "set %d: TotalValueAge() = %d, sum over contents %v", i, set.TotalValueAge(), bigSum(deque, vaOf))
	}
	cs := set.Coins()
	if len(cs) != len(deque) {
		return kit.V("coinset:contents-differ", "set %d: Coins() has %d entries, model %d", i, len(cs), len(deque))
	}
	for k := range cs {
		if cs[k] != deque[k] {
			return kit.V("coinset:contents-differ", "set %d: Coins()[%d] is not the model's coin %d (its contents changed although only pushes, pops and shifts recorded in the model touched it)", i, k, k)
		}
	}
	return nil
}

func (s *c19) NonTrivial() bool { return s.mutated && s.selected }

// C19 returns the engine.
func C19(known map[string]bool) kit.Engine {
	return &kit.SeqEngine{
		Id:    "C19",
		Known: known,
		New:   func(st *kit.Stats) kit.SeqSim { return &c19{st: st} },
		Desc: kit.Description{
			Rule: "one run = one drawn history of PushCoin / PopCoin / ShiftCoin (also on the empty set) / NewMsgTxWithInputCoins on one or two CoinSets built from sub-slices of one caller-owned list (harness coins and real SimpleCoins; rare big / huge / long-churn profiles), with the four selectors applied to a set's current contents, passed in one reused caller buffer, under parameters drawn per step (target 1..sum+2, MaxInputs -1..n+2, MinChange, MinAvgValueAge), the previous selection re-read after each call; running totals compared with sums over model deques after every step, selections judged by the contracts as the statement words them; non-trivial = at least one mutation and one selection; distinct = distinct FNV-64 signature of the executed op list",
			RealVsStub: map[string]string{
				"coinset.CoinSet, the four selectors, SimpleCoin, NewMsgTxWithInputCoins, bchutil.Tx": "real (from /repo working tree)",
				"harness coins (constant value-age)":                                                  "harness implementation of the Coin interface",
				"model deque, selection contracts":                                                    "reference model (verif/sim/props/c19.go), big-integer arithmetic",
				"network / disk / clock":                                                              "none exist in this code path",
			},
			Assumptions: []string{"targets <= 0 are not generated (the empty prefix would qualify and the statement is silent on it)", "sort.Sort is unstable: tie orders are accepted; the failure direction of MaxValueAge is asserted only when every tie order gives the same prefix totals", "sums stay below 2^63 by construction of the generator (large values only with <= 3 confirmations)"},
		},
	}
}
