//go:build race

package props

import (
	zzsimhub "github.com/gcash/bchutil/zzsimhub"
)

// The race runner is built against the instrumented scratch copy of the
// repository, where every package other than bloom and gcs reports its
// statements through this hub (see bin/build.sh). The plain runner is built
// against /repo itself, which has no such package - hence the build tag.
func init() {
	zzsimhub.Hook = func(site int) {
		if a := active; a != nil {
			a.Yield(site, nil)
		}
	}
}
