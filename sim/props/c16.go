package props

import (
	"bytes"
	"fmt"
	"math"
	"time"

	"github.com/gcash/bchd/chaincfg/chainhash"
	"github.com/gcash/bchd/wire"
	"github.com/gcash/bchutil"

	"verif/sim/kit"
	"verif/sim/simio"
)

// C16: accessor-call histories on lazily caching Block / Tx wrappers, built
// through every constructor - including from a reader that delivers the
// bytes in short reads, with EOF alongside data, or that tears the stream
// (early EOF / injected error at an arbitrary offset). After every call the
// result is compared with a fresh computation from the wire message; a final
// sweep observes everything.

// c16Obj is one wrapped block under observation.
type c16Obj struct {
	raw   []byte         // the block's exact serialisation
	ref   *wire.MsgBlock // independent parse, used only for recomputation
	own   *wire.MsgBlock // the message handed to / held by the wrapper
	blk   *bchutil.Block
	ctor  int
	seen  map[int]*bchutil.Tx // first object returned for index i
	got   []*bchutil.Tx       // wrapped transactions obtained so far
	gotIx []int

	height      int32
	calledAll   bool
	calledTx    bool
	calledBytes bool
}

type c16 struct {
	st *kit.Stats

	// several wrappers live side by side: a cache or buffer shared between
	// wrapper objects would corrupt an earlier one when a later one is used
	objs    []*c16Obj
	*c16Obj // the object the current operation addresses

	shared *bytes.Buffer // the caller's reusable read buffer

	sraw []byte
	sref *wire.MsgTx
	stx  *bchutil.Tx
	sidx int

	maxSteps, steps int
	swept           bool
	accessors       int
	faultsFired     int
	usedTx          bool
}

func (s *c16) Start(r *kit.Rng, cfg map[string]int64) {
	s.c16Obj = &c16Obj{} // placeholder until the first block exists
	s.sidx = bchutil.TxIndexUnknown
	if r == nil {
		return
	}
	s.maxSteps = r.Range(3, 40*kit.Depth)
	if kit.Depth > 1 && r.Chance(1, 1000) {
		s.maxSteps = r.Range(4000, 6000) // one wrapper used for a very long time
		s.st.Probe("marathon-run")
	}
	cfg["max_steps"] = int64(s.maxSteps)
}

func c16Tx(r *kit.Rng, salt uint32) *wire.MsgTx {
	tx := wire.NewMsgTx(int32(r.Range(1, 2)))
	nin, nout := r.Range(0, 4), r.Range(0, 4)
	if nin == 0 && r.Chance(3, 4) {
		nin = 1
	}
	for i := 0; i < nin; i++ {
		var h chainhash.Hash
		copy(h[:], r.Bytes(32))
		tx.AddTxIn(&wire.TxIn{PreviousOutPoint: wire.OutPoint{Hash: h, Index: r.U32()}, SignatureScript: r.Bytes(r.Range(0, 30)), Sequence: r.U32()})
	}
	for i := 0; i < nout; i++ {
		slen := r.Range(0, 40)
		if r.Chance(1, 6) {
			slen = r.Range(150, 300) // around the 1-byte / 3-byte length boundary, with or without a token prefix
		}
		out := &wire.TxOut{Value: int64(r.Intn(1 << 30)), PkScript: r.Bytes(slen)}
		if len(out.PkScript) > 0 && out.PkScript[0] == wire.PREFIX_BYTE {
			out.PkScript[0] = 0x51
		}
		if r.Chance(1, 5) {
			var cat [32]byte
			copy(cat[:], r.Bytes(32))
			var amt *uint64
			var com *[]byte
			var cp *byte
			if r.Chance(1, 2) {
				a := uint64(r.Range(1, 252))
				amt = &a
			}
			if r.Chance(1, 2) {
				c := r.Bytes(r.Range(1, 40))
				com = &c
			}
			if r.Chance(1, 2) || (amt == nil && com == nil) {
				c := byte(r.Intn(3))
				cp = &c
			}
			if td, err := wire.NewTokenData(cat, amt, com, cp); err == nil {
				out.TokenData = *td
			}
		}
		tx.AddTxOut(out)
	}
	tx.LockTime = salt
	return tx
}

// stable reports whether wire round-trips the message byte-exactly (a
// dependency quirk would otherwise look like a wrapper bug).
func stableTx(tx *wire.MsgTx) bool {
	b := serTx(tx)
	t2, err := deserTx(b)
	return err == nil && bytes.Equal(serTx(t2), b)
}

func c16Block(r *kit.Rng, st *kit.Stats) *wire.MsgBlock {
	var h chainhash.Hash
	copy(h[:], r.Bytes(32))
	var mr chainhash.Hash
	copy(mr[:], r.Bytes(32))
	hdr := wire.NewBlockHeader(int32(r.Range(1, 4)), &h, &mr, r.U32(), r.U32())
	// NewBlockHeader stamps the real clock: every source of nondeterminism
	// goes behind the seed
	hdr.Timestamp = time.Unix(int64(r.U32()), 0)
	blk := wire.NewMsgBlock(hdr)
	n := 0
	switch r.Intn(10) {
	case 0:
		n = 0
	case 1, 2, 3, 4, 5, 6:
		n = r.Range(1, 4)
	default:
		n = r.Range(5, 40)
	}
	if r.Chance(1, 30) {
		// around the 1-byte / 3-byte transaction-count boundary
		n = []int{252, 253, 254, 300}[r.Intn(4)]
		if r.Chance(1, 5) {
			n = []int{1023, 1024, 1030}[r.Intn(3)]
		}
		st.Probe("block-with-3-byte-transaction-count")
		for i := 0; i < n; i++ {
			tx := wire.NewMsgTx(1)
			tx.AddTxIn(&wire.TxIn{Sequence: uint32(i), SignatureScript: r.Bytes(r.Intn(3))})
			if i%3 == 0 {
				tx.AddTxOut(&wire.TxOut{Value: int64(i), PkScript: []byte{0x51}})
			}
			_ = blk.AddTransaction(tx)
		}
		return blk
	}
	for i := 0; i < n; i++ {
		tx := c16Tx(r, uint32(i))
		for k := 0; k < 4 && !stableTx(tx); k++ {
			st.Probe("wire-unstable-tx-regenerated")
			for _, o := range tx.TxOut {
				o.TokenData = wire.TokenData{}
			}
			if len(tx.TxIn) == 0 {
				tx = c16Tx(r, uint32(i))
			}
		}
		if !stableTx(tx) {
			tx = wire.NewMsgTx(1)
			tx.AddTxIn(&wire.TxIn{Sequence: uint32(i)})
		}
		_ = blk.AddTransaction(tx)
	}
	return blk
}

func serBlock(b *wire.MsgBlock) []byte {
	var w bytes.Buffer
	_ = b.Serialize(&w)
	return w.Bytes()
}

func c16Index(r *kit.Rng, n int) int64 {
	switch r.Intn(8) {
	case 0:
		return math.MinInt64
	case 1:
		return -1
	case 2:
		return int64(n)
	case 3:
		return int64(n + 1)
	case 4:
		return math.MaxInt64
	}
	if n == 0 {
		return 0
	}
	return int64(r.Intn(n))
}

func (s *c16) Gen(r *kit.Rng) (kit.Op, bool) {
	if s.swept {
		return kit.Op{}, false
	}
	s.steps++
	if len(s.objs) == 0 && s.stx == nil && s.steps == 1 {
		if r.Chance(1, 6) {
			tx := c16Tx(r, 7)
			for !stableTx(tx) {
				tx = c16Tx(r, 8)
				for _, o := range tx.TxOut {
					o.TokenData = wire.TokenData{}
				}
			}
			ctor := r.Intn(4)
			op := kit.Op{K: "tx", D: kit.Hex(serTx(tx)), N: []int64{int64(ctor)}}
			if ctor == 3 {
				op.S = kit.Hex(r.Bytes(r.Range(1, 60))) // bytes following the transaction in the caller's buffer
			}
			if ctor == 2 {
				op.S = simio.DrawBenign(r).String()
			}
			return op, true
		}
		blk := c16Block(r, s.st)
		ctor := []int{0, 1, 2, 3, 5, 6, 7, 8}[r.Intn(8)]
		op := kit.Op{K: "block", D: kit.Hex(serBlock(blk)), N: []int64{int64(ctor)}}
		if ctor == 2 || ctor == 8 {
			op.S = simio.DrawBenign(r).String()
		}
		return op, true
	}
	if s.steps > s.maxSteps {
		return kit.Op{K: "sweep"}, true
	}
	// a further wrapper over the SAME wire message as an existing one
	if len(s.objs) > 0 && len(s.objs) < 3 && r.Chance(1, 16) {
		k := r.Intn(len(s.objs))
		return kit.Op{K: "block", D: kit.Hex(s.objs[k].raw), N: []int64{4, int64(k)}}, true
	}
	// a further wire block that contains the SAME *wire.MsgTx objects as an
	// existing one, at other positions (block templates share transactions)
	if len(s.objs) > 0 && len(s.objs) < 3 && r.Chance(1, 16) {
		k := r.Intn(len(s.objs))
		if n := len(s.objs[k].own.Transactions); n >= 2 && n <= 60 {
			return kit.Op{K: "block", N: []int64{9, int64(k), int64(r.Range(1, n-1))}}, true
		}
	}
	// a further wrapper next to the existing ones
	if len(s.objs) > 0 && len(s.objs) < 3 && r.Chance(1, 8) {
		blk := c16Block(r, s.st)
		ctor := []int{0, 1, 2, 3, 5, 5, 6, 7, 8}[r.Intn(9)]
		op := kit.Op{K: "block", D: kit.Hex(serBlock(blk)), N: []int64{int64(ctor)}}
		if ctor == 2 || ctor == 8 {
			op.S = simio.DrawBenign(r).String()
		}
		return op, true
	}
	oi := 0
	if len(s.objs) > 0 {
		oi = r.Intn(len(s.objs))
		s.c16Obj = s.objs[oi]
	}
	// reader faults are independent of the wrapped object
	if r.Chance(1, 6) {
		src := s.raw
		isTx := int64(0)
		if src == nil || (s.sraw != nil && r.Chance(1, 2)) {
			src, isTx = s.sraw, 1
		}
		if isTx == 0 && s.ref != nil && len(s.ref.Transactions) > 0 && len(s.ref.Transactions) < 60 && r.Chance(1, 3) {
			src, isTx = serTx(s.ref.Transactions[r.Intn(len(s.ref.Transactions))]), 1
		}
		if len(src) > 0 && r.Chance(1, 3) {
			return kit.Op{K: "transientread", D: kit.Hex(src), N: []int64{isTx}, S: simio.DrawTransient(r, len(src)).String()}, true
		}
		return kit.Op{K: "faultread", D: kit.Hex(src), N: []int64{isTx}, S: simio.DrawDestructive(r, len(src)).String()}, true
	}
	if s.stx != nil {
		return kit.Op{K: []string{"s.hash", "s.index", "s.msgtx", "s.setindex", "s.hash"}[r.Intn(5)], N: []int64{int64(r.Intn(9) - 1)}}, true
	}
	n := len(s.ref.Transactions)
	switch r.Intn(14) {
	case 0:
		return kit.Op{K: "b.hash", H: oi}, true
	case 1:
		return kit.Op{K: "b.bytes", H: oi}, true
	case 2, 3, 4:
		return kit.Op{K: "b.tx", H: oi, N: []int64{c16Index(r, n)}}, true
	case 5, 6:
		return kit.Op{K: "b.txhash", H: oi, N: []int64{c16Index(r, n)}}, true
	case 7:
		return kit.Op{K: "b.txs", H: oi}, true
	case 8:
		return kit.Op{K: "b.txloc", H: oi}, true
	case 9:
		return kit.Op{K: "b.msg", H: oi}, true
	case 10:
		if r.Chance(1, 2) {
			return kit.Op{K: "b.height", H: oi}, true
		}
		if r.Chance(1, 2) {
			// small heights: different wrappers get EQUAL heights
			return kit.Op{K: "b.setheight", H: oi, N: []int64{int64(r.Intn(3))}}, true
		}
		return kit.Op{K: "b.setheight", H: oi, N: []int64{int64(int32(r.U32()))}}, true
	case 11:
		return kit.Op{K: "b.reparse", H: oi}, true
	default:
		if len(s.got) == 0 {
			return kit.Op{K: "b.tx", H: oi, N: []int64{c16Index(r, n)}}, true
		}
		return kit.Op{K: []string{"t.hash", "t.index", "t.msgtx"}[r.Intn(3)], H: oi, N: []int64{int64(r.Intn(len(s.got)))}}, true
	}
}

func (s *c16) fire(rd *simio.Reader) {
	for _, k := range kit.SortedKeys(toI64(rd.Fired)) {
		for i := 0; i < rd.Fired[k]; i++ {
			s.st.Fault(k)
		}
		s.faultsFired += rd.Fired[k]
	}
}

func toI64(m map[string]int) map[string]int64 {
	o := map[string]int64{}
	for k, v := range m {
		o[k] = int64(v)
	}
	return o
}

func (s *c16) Apply(o kit.Op) *kit.Violation {
	switch o.K {
	case "block":
		if len(s.objs) >= 3 || s.stx != nil {
			return nil
		}
		if o.Arg(0) == 9 {
			return s.sharedTxBlock(int(o.Arg(1)), int(o.Arg(2)))
		}
		s.c16Obj = &c16Obj{seen: map[int]*bchutil.Tx{}, height: bchutil.BlockHeightUnknown}
		raw := o.Data()
		var ref, own wire.MsgBlock
		if ref.Deserialize(bytes.NewReader(raw)) != nil || own.Deserialize(bytes.NewReader(raw)) != nil {
			return nil
		}
		if !bytes.Equal(serBlock(&ref), raw) {
			return nil // not a canonical serialisation: outside the generator's contract
		}
		s.raw, s.ref, s.ctor = raw, &ref, int(o.Arg(0))
		switch s.ctor {
		case 0:
			s.own = &own
			s.blk = bchutil.NewBlock(&own)
		case 1:
			b, err := bchutil.NewBlockFromBytes(append([]byte(nil), raw...))
			if err != nil || b == nil {
				return kit.V("construct:NewBlockFromBytes-failed", "valid block rejected: %v", err)
			}
			s.blk, s.own = b, b.MsgBlock()
		case 2:
			rd := simio.NewReader(raw, simio.ParsePlan(o.S))
			b, err := bchutil.NewBlockFromReader(rd)
			s.fire(rd)
			if err != nil || b == nil {
				return kit.V("construct:NewBlockFromReader-failed-on-benign-reader", "a reader that delivers every byte (plan %s) gave error %v", o.S, err)
			}
			s.st.Probe("block-from-faulty-but-complete-reader")
			s.blk, s.own = b, b.MsgBlock()
		case 5:
			// from a *bytes.Buffer that the caller REUSES for the next block
			// (Reset + Write), as network code does with its read buffer
			if s.shared == nil {
				s.shared = &bytes.Buffer{}
			}
			s.shared.Reset()
			s.shared.Write(raw)
			b, err := bchutil.NewBlockFromReader(s.shared)
			if err != nil || b == nil {
				return kit.V("construct:NewBlockFromReader-failed-on-benign-reader", "bytes.Buffer reader gave error %v", err)
			}
			s.st.Probe("block-from-reused-bytes.Buffer")
			s.blk, s.own = b, b.MsgBlock()
		case 8:
			// two messages back to back in ONE stream (a peer connection):
			// each constructor call must consume exactly its message
			rd := simio.NewReader(append(append([]byte(nil), raw...), raw...), simio.ParsePlan(o.S))
			b, err := bchutil.NewBlockFromReader(rd)
			if err != nil || b == nil {
				s.fire(rd)
				return kit.V("construct:NewBlockFromReader-failed-on-benign-reader", "first block of a two-block stream (plan %s): %v", o.S, err)
			}
			b2, err := bchutil.NewBlockFromReader(rd)
			s.fire(rd)
			if err != nil || b2 == nil {
				return kit.V("stream:second-message-lost", "the second of two blocks sent back to back in one stream could not be read (%v): the first read consumed more than its message", err)
			}
			if !bytes.Equal(serBlock(b2.MsgBlock()), raw) {
				return kit.V("stream:second-message-lost", "the second of two identical blocks in one stream parsed to a different block")
			}
			s.st.Probe("two-blocks-from-one-stream")
			s.blk, s.own = b, b.MsgBlock()
		case 7:
			// from a *bytes.Reader that is NOT at offset 0: a framed stream
			// (some header bytes were consumed first), followed by more data
			pre := []byte{0xe3, 0xe1, 0xf3, 0xe8, 1, 2, 3, 4, 5, 6, 7}
			stream := append(append(append([]byte(nil), pre...), raw...), 0xde, 0xad, 0xbe, 0xef)
			rd := bytes.NewReader(stream)
			hdr := make([]byte, len(pre))
			_, _ = rd.Read(hdr)
			b, err := bchutil.NewBlockFromReader(rd)
			if err != nil || b == nil {
				return kit.V("construct:NewBlockFromReader-failed-on-benign-reader", "bytes.Reader positioned after a frame header gave error %v", err)
			}
			s.st.Probe("block-from-reader-at-nonzero-offset")
			s.blk, s.own = b, b.MsgBlock()
		case 6:
			// from a bytes.Reader over a slice the caller overwrites afterwards
			buf := append([]byte(nil), raw...)
			b, err := bchutil.NewBlockFromReader(bytes.NewReader(buf))
			for i := range buf {
				buf[i] = 0xa5
			}
			if err != nil || b == nil {
				return kit.V("construct:NewBlockFromReader-failed-on-benign-reader", "bytes.Reader gave error %v", err)
			}
			s.st.Probe("block-from-reader-over-overwritten-slice")
			s.blk, s.own = b, b.MsgBlock()
		case 4:
			// a second wrapper over the message object another wrapper holds
			k := int(o.Arg(1))
			if k < 0 || k >= len(s.objs) || !bytes.Equal(s.objs[k].raw, raw) {
				return nil
			}
			s.own = s.objs[k].own
			s.blk = bchutil.NewBlock(s.own)
			s.st.Probe("two-wrappers-over-one-message")
		default:
			s.own = &own
			s.blk = bchutil.NewBlockFromBlockAndBytes(&own, append([]byte(nil), raw...))
		}
		s.objs = append(s.objs, s.c16Obj)
		if len(s.objs) > 1 {
			s.st.Probe("several-wrappers-alive")
		}
		if len(ref.Transactions) == 0 {
			s.st.Probe("zero-transaction-block")
		}
		for _, t := range ref.Transactions {
			for _, out := range t.TxOut {
				if out.TokenData.BitField != 0 {
					s.st.Probe("block-with-token-data")
					return nil
				}
			}
		}
	case "tx":
		if len(s.objs) > 0 || s.stx != nil {
			return nil
		}
		raw := o.Data()
		ref, err := deserTx(raw)
		if err != nil || !bytes.Equal(serTx(ref), raw) {
			return nil
		}
		s.sraw, s.sref = raw, ref
		switch o.Arg(0) {
		case 0:
			own, _ := deserTx(raw)
			s.stx = bchutil.NewTx(own)
		case 1, 3:
			in := append([]byte(nil), raw...)
			if o.Arg(0) == 3 {
				// the transaction is the prefix of a longer buffer (e.g. the
				// next message follows): only the transaction is wrapped
				in = append(in, kit.Op{D: o.S}.Data()...)
				s.st.Probe("tx-from-bytes-with-trailing-bytes")
			}
			t, err := bchutil.NewTxFromBytes(in)
			if err != nil || t == nil {
				return kit.V("construct:NewTxFromBytes-failed", "valid transaction rejected: %v", err)
			}
			s.stx = t
		default:
			rd := simio.NewReader(raw, simio.ParsePlan(o.S))
			t, err := bchutil.NewTxFromReader(rd)
			s.fire(rd)
			if err != nil || t == nil {
				return kit.V("construct:NewTxFromReader-failed-on-benign-reader", "a reader that delivers every byte (plan %s) gave error %v", o.S, err)
			}
			s.st.Probe("tx-from-faulty-but-complete-reader")
			s.stx = t
		}
	case "faultread":
		raw := o.Data()
		plan := simio.ParsePlan(o.S)
		if plan.FaultKind == "" || plan.FaultAt >= len(raw) {
			return nil // not destructive
		}
		rd := simio.NewReader(raw, plan)
		var obj interface{}
		var err error
		isNil := false
		if o.Arg(0) == 1 {
			var t *bchutil.Tx
			t, err = bchutil.NewTxFromReader(rd)
			obj, isNil = t, t == nil
		} else {
			var b *bchutil.Block
			b, err = bchutil.NewBlockFromReader(rd)
			obj, isNil = b, b == nil
		}
		s.fire(rd)
		_ = obj
		if err == nil {
			return kit.V("reader-fault:torn-stream-accepted", "reader plan %s tears the %d-byte stream at offset %d, yet construction reported success", o.S, len(raw), plan.FaultAt)
		}
		if !isNil {
			return kit.V("reader-fault:half-built-object-returned", "construction failed (%v) under reader plan %s but returned a non-nil wrapper", err, o.S)
		}
		s.st.Probe("torn-stream-rejected-cleanly")
	case "transientread":
		// one error reported TOGETHER with data, after which the stream goes
		// on: the constructor may fail (nil, err) or - when the read that
		// carried the error was complete - succeed with the whole, correct
		// message; it must never hand out a damaged or partial object
		raw := o.Data()
		plan := simio.ParsePlan(o.S)
		if plan.FaultKind != "transient" || len(raw) == 0 {
			return nil
		}
		rd := simio.NewReader(raw, plan)
		var got []byte
		var err error
		isNil := true
		if o.Arg(0) == 1 {
			var t *bchutil.Tx
			t, err = bchutil.NewTxFromReader(rd)
			if t != nil {
				isNil, got = false, serTx(t.MsgTx())
			}
		} else {
			var b *bchutil.Block
			b, err = bchutil.NewBlockFromReader(rd)
			if b != nil {
				isNil, got = false, serBlock(b.MsgBlock())
			}
		}
		s.fire(rd)
		switch {
		case err != nil && !isNil:
			return kit.V("reader-fault:half-built-object-returned", "construction failed (%v) under reader plan %s but returned a non-nil wrapper", err, o.S)
		case err == nil && isNil:
			return kit.V("reader-fault:nil-without-error", "reader plan %s: neither object nor error", o.S)
		case err == nil && !bytes.Equal(got, raw):
			return kit.V("reader-fault:damaged-object-accepted", "a read error reported together with data (plan %s) was dropped and the constructor returned an object that does not serialise to the bytes sent", o.S)
		}
		if err == nil {
			s.st.Probe("transient-error-on-complete-read-tolerated")
		} else {
			s.st.Probe("transient-error-rejected")
		}
	case "sweep":
		s.swept = true
		return s.sweep()
	}
	if s.stx != nil {
		return s.applyTx(o)
	}
	if o.H < 0 || o.H >= len(s.objs) {
		return nil
	}
	s.c16Obj = s.objs[o.H]
	s.accessors++
	n := len(s.ref.Transactions)
	switch o.K {
	case "b.hash":
		want := s.ref.BlockHash()
		if got := s.blk.Hash(); got == nil || *got != want {
			return kit.V("stale-or-wrong:Block.Hash", "Hash() = %v, fresh BlockHash() = %v", got, want)
		}
	case "b.bytes":
		if !s.calledBytes {
			s.calledBytes = true
		}
		got, err := s.blk.Bytes()
		if err != nil || !bytes.Equal(got, s.raw) {
			return kit.V("stale-or-wrong:Block.Bytes", "Bytes() (err %v) differs from a fresh serialisation (%d vs %d bytes)", err, len(got), len(s.raw))
		}
	case "b.tx", "b.txhash":
		i := o.Arg(0)
		inRange := i >= 0 && i < int64(n)
		if int64(int(i)) != i {
			return nil
		}
		var tx *bchutil.Tx
		var h *chainhash.Hash
		var err error
		if o.K == "b.tx" {
			tx, err = s.blk.Tx(int(i))
		} else {
			h, err = s.blk.TxHash(int(i))
		}
		if !inRange {
			s.st.Probe("out-of-range-index")
			if err == nil {
				return kit.V("range:out-of-range-index-accepted", "%s(%d) on a %d-transaction block returned no error", o.K, i, n)
			}
			if _, ok := err.(bchutil.OutOfRangeError); !ok {
				return kit.V("range:wrong-error-type", "%s(%d) returned %T, not OutOfRangeError", o.K, i, err)
			}
			if tx != nil || h != nil {
				return kit.V("range:value-with-error", "%s(%d) returned a value together with the error", o.K, i)
			}
			return nil
		}
		if err != nil {
			return kit.V("range:valid-index-rejected", "%s(%d) on a %d-transaction block: %v", o.K, i, n, err)
		}
		s.calledTx = true
		s.usedTx = true
		if o.K == "b.txhash" {
			want := s.ref.Transactions[i].TxHash()
			if h == nil || *h != want {
				return kit.V("stale-or-wrong:Block.TxHash", "TxHash(%d) = %v, fresh %v", i, h, want)
			}
			return nil
		}
		return s.noteTx(int(i), tx, "Tx")
	case "b.txs":
		txs := s.blk.Transactions()
		if !s.calledAll {
			s.calledAll = true
			s.usedTx = true
			if s.calledTx {
				s.st.Probe("sparse-then-complete")
			}
		}
		if len(txs) != n {
			return kit.V("stale-or-wrong:Block.Transactions", "Transactions() has %d entries for %d transactions", len(txs), n)
		}
		for i, tx := range txs {
			if v := s.noteTx(i, tx, "Transactions"); v != nil {
				return v
			}
		}
	case "b.txloc":
		if !s.calledBytes {
			s.st.Probe("txloc-before-bytes")
		}
		locs, err := s.blk.TxLoc()
		if err != nil {
			return kit.V("stale-or-wrong:Block.TxLoc", "TxLoc failed: %v", err)
		}
		if len(locs) != n {
			return kit.V("stale-or-wrong:Block.TxLoc", "TxLoc has %d entries for %d transactions", len(locs), n)
		}
		pos := 80 + wire.VarIntSerializeSize(uint64(n))
		for i, l := range locs {
			if l.TxStart != pos {
				return kit.V("stale-or-wrong:Block.TxLoc", "transaction %d starts at %d, expected %d (contiguity)", i, l.TxStart, pos)
			}
			if l.TxStart+l.TxLen > len(s.raw) || !bytes.Equal(s.raw[l.TxStart:l.TxStart+l.TxLen], serTx(s.ref.Transactions[i])) {
				return kit.V("stale-or-wrong:Block.TxLoc", "location %d does not delimit transaction %d's serialisation", i, i)
			}
			pos += l.TxLen
		}
		if pos != len(s.raw) {
			return kit.V("stale-or-wrong:Block.TxLoc", "locations end at %d, block is %d bytes", pos, len(s.raw))
		}
		// the returned slice is the caller's: callers rebase these offsets in
		// place; a later call must not be affected
		for i := range locs {
			locs[i].TxStart += 1000003
			locs[i].TxLen = -1
		}
	case "b.msg":
		m := s.blk.MsgBlock()
		if m == nil || (s.own != nil && m != s.own) {
			return kit.V("stale-or-wrong:Block.MsgBlock", "MsgBlock() is not the wrapped message")
		}
	case "b.height":
		if got := s.blk.Height(); got != s.height {
			return kit.V("stale-or-wrong:Block.Height", "Height() = %d, expected %d", got, s.height)
		}
	case "b.setheight":
		s.height = int32(o.Arg(0))
		s.blk.SetHeight(s.height)
	case "b.reparse":
		b, err := s.blk.Bytes()
		s.calledBytes = true
		if err != nil {
			return kit.V("stale-or-wrong:Block.Bytes", "Bytes failed: %v", err)
		}
		nb, err := bchutil.NewBlockFromBytes(append([]byte(nil), b...))
		if err != nil {
			return kit.V("reparse:rejected", "a block re-parsed from its own bytes is rejected: %v", err)
		}
		if !bytes.Equal(serBlock(nb.MsgBlock()), s.raw) || *nb.Hash() != s.ref.BlockHash() {
			return kit.V("reparse:not-equivalent", "a block re-parsed from its bytes is not equivalent to the original")
		}
	case "t.hash", "t.index", "t.msgtx":
		k := int(o.Arg(0))
		if k < 0 || k >= len(s.got) {
			return nil
		}
		tx, i := s.got[k], s.gotIx[k]
		switch o.K {
		case "t.hash":
			want := s.ref.Transactions[i].TxHash()
			if got := tx.Hash(); got == nil || *got != want {
				return kit.V("stale-or-wrong:Tx.Hash", "wrapped transaction %d: Hash() = %v, fresh %v", i, got, want)
			}
		case "t.index":
			if tx.Index() != i {
				return kit.V("stale-or-wrong:Tx.Index", "wrapped transaction %d reports index %d", i, tx.Index())
			}
		default:
			if tx.MsgTx() != s.own.Transactions[i] {
				return kit.V("stale-or-wrong:Tx.MsgTx", "wrapped transaction %d does not wrap the block's transaction %d", i, i)
			}
		}
	}
	return nil
}

// sharedTxBlock wraps a new wire block whose transactions are the same
// *wire.MsgTx objects as wrapper k's, rotated by rot positions.
func (s *c16) sharedTxBlock(k, rot int) *kit.Violation {
	if k < 0 || k >= len(s.objs) {
		return nil
	}
	src := s.objs[k].own
	n := len(src.Transactions)
	if n < 2 || rot < 1 || rot >= n {
		return nil
	}
	hdr := src.Header
	hdr.Nonce ^= 0x5a5a5a5a
	msg := wire.NewMsgBlock(&hdr)
	for i := 0; i < n; i++ {
		_ = msg.AddTransaction(src.Transactions[(i+rot)%n])
	}
	raw := serBlock(msg)
	var ref wire.MsgBlock
	if ref.Deserialize(bytes.NewReader(raw)) != nil {
		return nil
	}
	s.c16Obj = &c16Obj{seen: map[int]*bchutil.Tx{}, height: bchutil.BlockHeightUnknown, raw: raw, ref: &ref, own: msg, ctor: 9}
	s.blk = bchutil.NewBlock(msg)
	s.objs = append(s.objs, s.c16Obj)
	s.st.Probe("two-blocks-sharing-transaction-objects")
	return nil
}

// noteTx checks one wrapped transaction returned for index i and enforces
// object identity of repeated calls.
func (s *c16) noteTx(i int, tx *bchutil.Tx, via string) *kit.Violation {
	if tx == nil {
		return kit.V("stale-or-wrong:nil-transaction", "%s returned nil for index %d", via, i)
	}
	if first, ok := s.seen[i]; ok {
		if first != tx {
			return kit.V("identity:different-object-for-same-index", "index %d: %s returned another object than an earlier call", i, via)
		}
	} else {
		s.seen[i] = tx
		s.got = append(s.got, tx)
		s.gotIx = append(s.gotIx, i)
	}
	if tx.Index() != i {
		return kit.V("stale-or-wrong:Tx.Index", "transaction obtained for index %d via %s reports index %d", i, via, tx.Index())
	}
	if tx.MsgTx() != s.own.Transactions[i] {
		return kit.V("stale-or-wrong:Tx.MsgTx", "transaction obtained for index %d via %s wraps another message", i, via)
	}
	return nil
}

func (s *c16) applyTx(o kit.Op) *kit.Violation {
	s.accessors++
	switch o.K {
	case "s.hash":
		want := s.sref.TxHash()
		if got := s.stx.Hash(); got == nil || *got != want {
			return kit.V("stale-or-wrong:Tx.Hash", "Hash() = %v, fresh %v", got, want)
		}
	case "s.index":
		if s.stx.Index() != s.sidx {
			return kit.V("stale-or-wrong:Tx.Index", "Index() = %d, expected %d", s.stx.Index(), s.sidx)
		}
	case "s.setindex":
		s.sidx = int(o.Arg(0))
		s.stx.SetIndex(s.sidx)
	case "s.msgtx":
		if m := s.stx.MsgTx(); m == nil || !bytes.Equal(serTx(m), s.sraw) {
			return kit.V("stale-or-wrong:Tx.MsgTx", "MsgTx() does not serialise to the original bytes")
		}
	}
	return nil
}

// sweep is the final observation of everything, each accessor twice.
func (s *c16) sweep() *kit.Violation {
	if s.stx != nil {
		for _, k := range []string{"s.hash", "s.index", "s.msgtx", "s.hash"} {
			if v := s.applyTx(kit.Op{K: k}); v != nil {
				return v
			}
		}
		return nil
	}
	for oi, ob := range s.objs {
		n := len(ob.ref.Transactions)
		seq := []kit.Op{{K: "b.hash"}, {K: "b.txloc"}, {K: "b.bytes"}, {K: "b.hash"}, {K: "b.msg"}, {K: "b.height"}}
		for i := 0; i < n; i++ {
			seq = append(seq, kit.Op{K: "b.txhash", N: []int64{int64(i)}}, kit.Op{K: "b.tx", N: []int64{int64(i)}})
		}
		seq = append(seq, kit.Op{K: "b.txs"}, kit.Op{K: "b.txs"}, kit.Op{K: "b.txloc"}, kit.Op{K: "b.reparse"},
			kit.Op{K: "b.tx", N: []int64{int64(n)}}, kit.Op{K: "b.tx", N: []int64{-1}})
		for k := 0; k < n; k++ {
			seq = append(seq, kit.Op{K: "t.hash", N: []int64{int64(k)}}, kit.Op{K: "t.index", N: []int64{int64(k)}}, kit.Op{K: "t.msgtx", N: []int64{int64(k)}})
		}
		// twice: the second pass sees what the first one cached, and every
		// object is looked at again after the others have been used
		for pass := 0; pass < 2; pass++ {
			for _, o := range seq {
				o.H = oi
				if v := s.Apply(o); v != nil {
					v.Detail = fmt.Sprintf("final sweep (pass %d), wrapper %d, %s: %s", pass+1, oi, o.String(), v.Detail)
					return v
				}
			}
		}
	}
	// and once more the first object, after all others were swept
	if len(s.objs) > 1 {
		for _, o := range []kit.Op{{K: "b.bytes"}, {K: "b.txloc"}, {K: "b.hash"}, {K: "b.reparse"}} {
			if v := s.Apply(o); v != nil {
				v.Detail = "final sweep, wrapper 0 after the others: " + v.Detail
				return v
			}
		}
	}
	return nil
}

// Check: the wrapped message itself must never be modified by an accessor.
func (s *c16) Check() *kit.Violation {
	for i, ob := range s.objs {
		if ob.own != nil && !bytes.Equal(serBlock(ob.own), ob.raw) {
			return kit.V("message-modified", "the wire message under wrapper %d no longer serialises to the original bytes", i)
		}
	}
	if s.stx != nil {
		if !bytes.Equal(serTx(s.stx.MsgTx()), s.sraw) {
			return kit.V("message-modified", "the underlying wire transaction no longer serialises to the original bytes")
		}
	}
	return nil
}

func (s *c16) NonTrivial() bool {
	return s.swept && s.accessors >= 3 && (s.usedTx || s.stx != nil || s.faultsFired > 0)
}

var _ = fmt.Sprint

// C16 returns the engine.
func C16() kit.Engine {
	return &kit.SeqEngine{
		Id:  "C16",
		New: func(st *kit.Stats) kit.SeqSim { return &c16{st: st} },
		Desc: kit.Description{
			Rule: "one run = up to three block wrappers alive side by side (blocks of 0..40 or 252..300 transactions, token data, long scripts; also two wrappers over one message and two blocks sharing transaction objects) or one transaction, built through drawn constructors (message, bytes, message+bytes, simulated reader under a benign fault plan, reused bytes.Buffer, bytes.Reader over an overwritten slice / at an offset, two blocks from one stream, trailing bytes), then a drawn history of accessor calls on any wrapper (indices incl. MinInt64, -1, n, n+1, MaxInt64), interleaved with constructions from torn readers (early EOF / injected error / error with data at a drawn offset) and from readers reporting one transient error with data, and a final sweep calling every accessor twice on every wrapper; non-trivial = the sweep was reached after at least three accessor calls including a transaction accessor, or a reader fault fired; distinct = distinct FNV-64 signature of the executed op list",
			RealVsStub: map[string]string{
				"bchutil.Block, bchutil.Tx and all constructors": "real (from /repo working tree)",
				"bchd/wire (de)serialisation":                    "real dependency; also used, on an independent parse, for the fresh recomputation",
				"io.Reader":                                      "simulated (verif/sim/simio): short reads, (0,nil), data+EOF, early EOF, injected error at any offset; counts what fired",
				"network / disk / clock":                         "none exist in this code path",
			},
			Assumptions: []string{"NewBlockFromBlockAndBytes is always given the exact serialisation of the message (anything else is the caller breaking the contract)", "messages whose wire round-trip is not byte-stable (a dependency quirk) are not generated"},
		},
	}
}
