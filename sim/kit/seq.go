package kit

import (
	"fmt"
	"runtime/debug"
	"strings"
)

// SeqSim is a single-task history simulation: the engine draws (or replays)
// one operation at a time, applies it to the real object and to the reference
// model, and evaluates the cross-invariants over all live objects after every
// step.
type SeqSim interface {
	// Start prepares a run. In generate mode cfg is empty and the sim draws
	// its configuration from r and records it in cfg; in replay mode r is nil
	// and cfg is what the trace holds.
	Start(r *Rng, cfg map[string]int64)
	// Gen draws the next operation given the sim's current state; ok=false
	// ends the run.
	Gen(r *Rng) (op Op, ok bool)
	// Apply executes op on the real code and the model and compares the
	// observable result.
	Apply(op Op) *Violation
	// Check evaluates the invariants over all live objects.
	Check() *Violation
	// NonTrivial tells, at the end, whether the run counts as non-trivial by
	// the property's rule.
	NonTrivial() bool
}

// SeqEngine adapts a SeqSim factory to the Engine interface.
type SeqEngine struct {
	Id        string
	New       func(st *Stats) SeqSim
	Desc      Description
	Simplify_ func(t *Trace) []*Trace
	// Known lists violation keys that are recorded as known findings and do
	// not end the run.
	Known map[string]bool
}

// ID returns the property id.
func (e *SeqEngine) ID() string { return e.Id }

// Describe returns the static evidence part.
func (e *SeqEngine) Describe() Description { return e.Desc }

// Simplify delegates.
func (e *SeqEngine) Simplify(t *Trace) []*Trace {
	if e.Simplify_ == nil {
		return nil
	}
	return e.Simplify_(t)
}

func guard(kind string, step int, f func() *Violation) (v *Violation) {
	defer func() {
		if r := recover(); r != nil {
			st := string(debug.Stack())
			v = &Violation{Class: "panic:" + kind, Key: "panic:" + kind + ":" + PanicSite(st), Detail: fmt.Sprintf("panic: %v\n%s", r, trimStack(st)), Step: step}
		}
	}()
	return f()
}

// PanicSite extracts the innermost frame inside the repository under test.
func PanicSite(stack string) string {
	lines := strings.Split(stack, "\n")
	seenPanic := false
	for _, l := range lines {
		if strings.HasPrefix(l, "panic(") {
			seenPanic = true
			continue
		}
		if !seenPanic {
			continue
		}
		if strings.HasPrefix(l, "github.com/gcash/bchutil") {
			if i := strings.LastIndex(l, "("); i > 0 {
				// strip arguments
				j := strings.LastIndex(l[:i], "/")
				return l[j+1 : i]
			}
			return l
		}
	}
	return "?"
}

func trimStack(s string) string {
	if len(s) > 3000 {
		return s[:3000]
	}
	return s
}

func (e *SeqEngine) run(seed uint64, replay *Trace, st *Stats) *Outcome {
	sim := e.New(st)
	tr := &Trace{Property: e.Id, Seed: seed, Config: map[string]int64{}}
	var r, wr *Rng
	if replay == nil {
		r = NewRng(seed)
		wr = r.Sub("workload")
		sim.Start(r.Sub("config"), tr.Config)
	} else {
		for k, v := range replay.Config {
			tr.Config[k] = v
		}
		tr.Seed = replay.Seed
		sim.Start(nil, tr.Config)
	}
	out := &Outcome{Trace: tr}
	if ka, ok := sim.(interface {
		SetKnown(map[string]bool, func(Violation))
	}); ok {
		// stateless checks may record a listed known finding and carry on
		ka.SetKnown(e.Known, func(v Violation) {
			if len(out.Known) < 8 {
				out.Known = append(out.Known, v)
			}
		})
	}
	sig := NewHash()
	for _, k := range SortedKeys(tr.Config) {
		sig = sig.Str(k).Int(tr.Config[k])
	}
	step := 0
	for {
		var op Op
		if replay == nil {
			var ok bool
			if v := guard("gen", step, func() *Violation { op, ok = sim.Gen(wr); return nil }); v != nil {
				// a panic while generating is harness trouble, surface loudly
				panic("harness panic in Gen: " + v.Detail)
			}
			if !ok {
				break
			}
		} else {
			if step >= len(replay.Ops) {
				break
			}
			op = replay.Ops[step]
		}
		tr.Ops = append(tr.Ops, op)
		sig = op.Fold(sig)
		st.Op(op.K)
		step++
		v := guard(op.K, step, func() *Violation { return sim.Apply(op) })
		if v == nil {
			v = guard("check-after-"+op.K, step, sim.Check)
		}
		if v != nil {
			v.Step = step
			if v.Key == "" {
				v.Key = v.Class
			}
			if e.Known[v.Key] {
				out.Known = append(out.Known, *v)
				// a known finding ends the run (state may be polluted) but is
				// not a violation
				break
			}
			out.Viol = v
			tr.Viol = v
			break
		}
	}
	out.Steps = step
	out.Sig = uint64(sig)
	out.NonTrivial = sim.NonTrivial()
	st.Runs++
	st.Steps += int64(step)
	if out.NonTrivial {
		st.NonTrivial++
	}
	return out
}

// Run generates and executes one run.
func (e *SeqEngine) Run(seed uint64, st *Stats) *Outcome { return e.run(seed, nil, st) }

// Replay executes an explicit trace.
func (e *SeqEngine) Replay(t *Trace, st *Stats) *Outcome { return e.run(t.Seed, t, st) }

// V builds a violation.
func V(class, format string, a ...interface{}) *Violation {
	return &Violation{Class: class, Key: class, Detail: fmt.Sprintf(format, a...)}
}

// VK builds a violation with an explicit structural key.
func VK(class, key, format string, a ...interface{}) *Violation {
	return &Violation{Class: class, Key: key, Detail: fmt.Sprintf(format, a...)}
}
