package kit

// Minimise reduces a failing trace by delta debugging while test keeps
// reporting true (= "fails with the same violation class"). Elements are the
// ops of Ops, of Faults and of each client; simplify proposes further
// variants (argument / config / schedule shrinking). budget caps the number
// of test evaluations.
func Minimise(t *Trace, test func(*Trace) bool, simplify func(*Trace) []*Trace, budget int) (*Trace, int) {
	evals := 0
	try := func(c *Trace) bool {
		if evals >= budget {
			return false
		}
		evals++
		return test(c)
	}
	cur := t.Clone()
	for round := 0; round < 4; round++ {
		before := cur.Size()
		cur = ddminElems(cur, try)
		// drop whole empty clients
		for ci := 0; ci < len(cur.Clients); ci++ {
			if len(cur.Clients) <= 1 {
				break
			}
			c := cur.Clone()
			c.Clients = append(c.Clients[:ci:ci], c.Clients[ci+1:]...)
			c.Schedule = remapSchedule(cur.Schedule, ci)
			if try(c) {
				cur = c
				ci--
			}
		}
		progress := true
		for progress && simplify != nil && evals < budget {
			progress = false
			for _, c := range simplify(cur) {
				if try(c) {
					cur = c
					progress = true
					break
				}
			}
		}
		if cur.Size() >= before && round > 0 {
			break
		}
	}
	return cur, evals
}

func remapSchedule(s []int, removed int) []int {
	out := make([]int, 0, len(s))
	for _, v := range s {
		if v == removed {
			continue
		}
		if v > removed {
			v--
		}
		out = append(out, v)
	}
	return out
}

type elemRef struct{ list, idx int } // list: -1 Ops, -2 Faults, >=0 client

func flatten(t *Trace) []elemRef {
	var e []elemRef
	for i := range t.Ops {
		e = append(e, elemRef{-1, i})
	}
	for i := range t.Faults {
		e = append(e, elemRef{-2, i})
	}
	for c := range t.Clients {
		for i := range t.Clients[c] {
			e = append(e, elemRef{c, i})
		}
	}
	return e
}

func without(t *Trace, drop map[elemRef]bool) *Trace {
	c := t.Clone()
	c.Ops = c.Ops[:0]
	for i, o := range t.Ops {
		if !drop[elemRef{-1, i}] {
			c.Ops = append(c.Ops, o)
		}
	}
	c.Faults = c.Faults[:0]
	for i, o := range t.Faults {
		if !drop[elemRef{-2, i}] {
			c.Faults = append(c.Faults, o)
		}
	}
	for ci := range t.Clients {
		c.Clients[ci] = c.Clients[ci][:0]
		for i, o := range t.Clients[ci] {
			if !drop[elemRef{ci, i}] {
				c.Clients[ci] = append(c.Clients[ci], o)
			}
		}
	}
	return c
}

func ddminElems(t *Trace, try func(*Trace) bool) *Trace {
	cur := t
	n := 2
	for {
		elems := flatten(cur)
		if len(elems) <= 1 {
			return cur
		}
		if n > len(elems) {
			n = len(elems)
		}
		chunk := (len(elems) + n - 1) / n
		reduced := false
		for start := 0; start < len(elems); start += chunk {
			end := start + chunk
			if end > len(elems) {
				end = len(elems)
			}
			drop := map[elemRef]bool{}
			for _, e := range elems[start:end] {
				drop[e] = true
			}
			c := without(cur, drop)
			if try(c) {
				cur = c
				reduced = true
				if n > 2 {
					n--
				}
				break
			}
		}
		if !reduced {
			if chunk == 1 {
				return cur
			}
			n *= 2
		}
	}
}
