// Package kit holds the pieces every simulation engine shares: the seeded
// generator (one integer decides everything), the trace / result types, the
// delta-debugging minimiser and the evidence writer.
package kit

// SplitMix64 / xoshiro256** implemented here so that neither a toolchain
// change nor math/rand's algorithm can move the stream behind a seed.

func splitmix(x *uint64) uint64 {
	*x += 0x9e3779b97f4a7c15
	z := *x
	z = (z ^ (z >> 30)) * 0xbf58476d1ce4e5b9
	z = (z ^ (z >> 27)) * 0x94d049bb133111eb
	return z ^ (z >> 31)
}

// Mix derives run seed i of a batch from the batch seed.
func Mix(seed uint64, i uint64) uint64 {
	x := seed ^ (i+1)*0xd1342543de82ef95
	a := splitmix(&x)
	b := splitmix(&x)
	return a ^ (b << 1)
}

// Rng is xoshiro256**.
type Rng struct{ s [4]uint64 }

// NewRng seeds a generator from one integer.
func NewRng(seed uint64) *Rng {
	r := &Rng{}
	x := seed
	for i := range r.s {
		r.s[i] = splitmix(&x)
	}
	if r.s[0]|r.s[1]|r.s[2]|r.s[3] == 0 {
		r.s[0] = 1
	}
	return r
}

// Sub derives an independent stream by label, so that shrinking what is drawn
// from one stream never shifts another.
func (r *Rng) Sub(label string) *Rng {
	h := uint64(0xcbf29ce484222325)
	for i := 0; i < len(label); i++ {
		h ^= uint64(label[i])
		h *= 0x100000001b3
	}
	return NewRng(r.s[0] ^ h*0x9e3779b97f4a7c15 ^ r.s[2]>>7)
}

func rotl(x uint64, k uint) uint64 { return (x << k) | (x >> (64 - k)) }

// U64 returns the next 64 bits.
//
//go:norace
func (r *Rng) U64() uint64 {
	res := rotl(r.s[1]*5, 7) * 9
	t := r.s[1] << 17
	r.s[2] ^= r.s[0]
	r.s[3] ^= r.s[1]
	r.s[1] ^= r.s[2]
	r.s[0] ^= r.s[3]
	r.s[2] ^= t
	r.s[3] = rotl(r.s[3], 45)
	return res
}

// Intn returns a value in [0,n). n must be > 0.
//
//go:norace
func (r *Rng) Intn(n int) int {
	if n <= 1 {
		return 0
	}
	return int(r.U64() % uint64(n))
}

// Range returns a value in [lo,hi].
func (r *Rng) Range(lo, hi int) int {
	if hi <= lo {
		return lo
	}
	return lo + r.Intn(hi-lo+1)
}

// U32 returns 32 random bits.
func (r *Rng) U32() uint32 { return uint32(r.U64() >> 32) }

// Chance is true with probability num/den.
//
//go:norace
func (r *Rng) Chance(num, den int) bool { return r.Intn(den) < num }

// Float returns a value in [0,1).
func (r *Rng) Float() float64 { return float64(r.U64()>>11) / (1 << 53) }

// Bytes returns n random bytes.
func (r *Rng) Bytes(n int) []byte {
	b := make([]byte, n)
	for i := 0; i < n; i += 8 {
		v := r.U64()
		for j := 0; j < 8 && i+j < n; j++ {
			b[i+j] = byte(v >> (8 * uint(j)))
		}
	}
	return b
}

// Pick returns one of the weights' indices with probability proportional to
// its weight. Zero-weight entries are never picked; if all are zero, 0.
func (r *Rng) Pick(weights []int) int {
	t := 0
	for _, w := range weights {
		t += w
	}
	if t <= 0 {
		return 0
	}
	x := r.Intn(t)
	for i, w := range weights {
		if x < w {
			return i
		}
		x -= w
	}
	return len(weights) - 1
}

// Hash64 is FNV-1a over a byte string, used for run signatures.
type Hash64 uint64

// NewHash starts a signature.
func NewHash() Hash64 { return 0xcbf29ce484222325 }

// Bytes folds b into the signature.
func (h Hash64) Bytes(b []byte) Hash64 {
	x := uint64(h)
	for _, c := range b {
		x ^= uint64(c)
		x *= 0x100000001b3
	}
	return Hash64(x)
}

// Str folds s.
func (h Hash64) Str(s string) Hash64 {
	x := uint64(h)
	for i := 0; i < len(s); i++ {
		x ^= uint64(s[i])
		x *= 0x100000001b3
	}
	x ^= 0xff
	x *= 0x100000001b3
	return Hash64(x)
}

// Int folds v.
func (h Hash64) Int(v int64) Hash64 {
	x := uint64(h)
	u := uint64(v)
	for i := 0; i < 8; i++ {
		x ^= u & 0xff
		x *= 0x100000001b3
		u >>= 8
	}
	return Hash64(x)
}

// Depth is the tier's depth factor (1 quick, 3 thorough): simulators scale
// the upper bound of their history lengths by it. It is fixed for a whole
// batch and recorded in the evidence, so a seed still determines its run.
var Depth = 1
