package kit

import (
	"encoding/hex"
	"encoding/json"
	"fmt"
	"os"
	"sort"
)

// Op is one step of a simulated history: an API call, an injected fault, or a
// client operation. It is self-contained (handles are pool indices, data is
// hex) so a trace can be replayed without the generator, and robust (an op
// whose handle no longer exists after shrinking is skipped, not an error).
type Op struct {
	K string  `json:"k"`
	H int     `json:"h,omitempty"`
	N []int64 `json:"n,omitempty"`
	D string  `json:"d,omitempty"`
	S string  `json:"s,omitempty"`
}

// Data decodes the hex payload.
func (o Op) Data() []byte {
	b, _ := hex.DecodeString(o.D)
	return b
}

// Arg returns numeric argument i or 0.
func (o Op) Arg(i int) int64 {
	if i < len(o.N) {
		return o.N[i]
	}
	return 0
}

// Hex encodes b.
func Hex(b []byte) string { return hex.EncodeToString(b) }

// Fold folds an op into a signature.
func (o Op) Fold(h Hash64) Hash64 {
	h = h.Str(o.K).Int(int64(o.H))
	for _, n := range o.N {
		h = h.Int(n)
	}
	return h.Str(o.D).Str(o.S)
}

func (o Op) String() string {
	s := o.K
	if o.H != 0 {
		s += fmt.Sprintf("#%d", o.H)
	}
	if len(o.N) > 0 {
		s += fmt.Sprint(o.N)
	}
	if o.D != "" {
		d := o.D
		if len(d) > 24 {
			d = d[:24] + "…"
		}
		s += " " + d
	}
	if o.S != "" {
		s += " " + o.S
	}
	return s
}

// Violation describes what failed. Class is stable under minimisation (the
// minimiser only accepts candidates ending in the same class); Key identifies
// the defect structurally for known_findings.json.
type Violation struct {
	Class  string `json:"class"`
	Key    string `json:"key"`
	Detail string `json:"detail"`
	Step   int    `json:"step"`
}

// Trace is the replay file: everything needed to re-execute one run without
// the PRNG.
type Trace struct {
	Property string           `json:"property"`
	Seed     uint64           `json:"seed"`
	Kind     string           `json:"kind,omitempty"`
	Config   map[string]int64 `json:"config,omitempty"`
	Setup    []Op             `json:"setup,omitempty"`
	Ops      []Op             `json:"ops,omitempty"`
	Clients  [][]Op           `json:"clients,omitempty"`
	Faults   []Op             `json:"faults,omitempty"`
	Schedule []int            `json:"schedule,omitempty"`
	Sites    []int            `json:"sites_enabled,omitempty"`
	Viol     *Violation       `json:"violation,omitempty"`
	Log      []string         `json:"event_log,omitempty"`
}

// Cfg reads a config value with default.
func (t *Trace) Cfg(k string, def int64) int64 {
	if v, ok := t.Config[k]; ok {
		return v
	}
	return def
}

// Clone makes a deep copy.
func (t *Trace) Clone() *Trace {
	b, _ := json.Marshal(t)
	var c Trace
	_ = json.Unmarshal(b, &c)
	return &c
}

// Size is the measure the minimiser decreases.
func (t *Trace) Size() int {
	n := len(t.Ops) + len(t.Faults)
	for _, c := range t.Clients {
		n += len(c) + 1
	}
	return n
}

// WriteFile stores the trace as indented JSON.
func (t *Trace) WriteFile(path string) error {
	b, err := json.MarshalIndent(t, "", " ")
	if err != nil {
		return err
	}
	return os.WriteFile(path, append(b, '\n'), 0o644)
}

// ReadTrace loads a replay file.
func ReadTrace(path string) (*Trace, error) {
	b, err := os.ReadFile(path)
	if err != nil {
		return nil, err
	}
	var t Trace
	if err := json.Unmarshal(b, &t); err != nil {
		return nil, err
	}
	return &t, nil
}

// Outcome is what one simulated run reports.
type Outcome struct {
	Trace      *Trace
	Sig        uint64
	NonTrivial bool
	Steps      int
	Viol       *Violation
	Known      []Violation // hits of listed known findings (not fatal)
}

// Stats are the counters an engine keeps across the runs of one worker.
type Stats struct {
	Runs       int64            `json:"runs"`
	Steps      int64            `json:"steps"`
	NonTrivial int64            `json:"nontrivial"`
	Faults     map[string]int64 `json:"faults"`
	Probes     map[string]int64 `json:"probes"`
	Ops        map[string]int64 `json:"ops"`
	Extra      map[string]int64 `json:"extra"`
}

// NewStats allocates the maps.
func NewStats() *Stats {
	return &Stats{Faults: map[string]int64{}, Probes: map[string]int64{}, Ops: map[string]int64{}, Extra: map[string]int64{}}
}

// Fault counts a fault that actually fired.
func (s *Stats) Fault(k string) { s.Faults[k]++ }

// Probe counts a "rare condition reached" event.
func (s *Stats) Probe(k string) { s.Probes[k]++ }

// Op counts an executed operation kind.
func (s *Stats) Op(k string) { s.Ops[k]++ }

// Merge adds o into s.
func (s *Stats) Merge(o *Stats) {
	s.Runs += o.Runs
	s.Steps += o.Steps
	s.NonTrivial += o.NonTrivial
	add := func(d, m map[string]int64) {
		for k, v := range m {
			d[k] += v
		}
	}
	add(s.Faults, o.Faults)
	add(s.Probes, o.Probes)
	add(s.Ops, o.Ops)
	add(s.Extra, o.Extra)
}

// SortedKeys lists a map's keys in order (never range a map where order can
// reach the log or the PRNG).
func SortedKeys(m map[string]int64) []string {
	ks := make([]string, 0, len(m))
	for k := range m {
		ks = append(ks, k)
	}
	sort.Strings(ks)
	return ks
}

// Engine is one property's simulator.
type Engine interface {
	ID() string
	// Run draws a run from its seed (config, workload, faults, schedule) and
	// executes it against the real code and the reference model.
	Run(seed uint64, st *Stats) *Outcome
	// Replay executes an explicit trace; it does not use the PRNG.
	Replay(t *Trace, st *Stats) *Outcome
	// Simplify proposes smaller/simpler variants of a failing trace beyond
	// dropping ops (argument shrinking, config shrinking, schedule
	// simplification). May return nil.
	Simplify(t *Trace) []*Trace
	// Describe returns static facts for the evidence file.
	Describe() Description
}

// Description is the static part of the evidence.
type Description struct {
	Rule        string            `json:"rule"`
	RealVsStub  map[string]string `json:"real_vs_stub"`
	Assumptions []string          `json:"assumptions"`
	// Legend explains counter names in the evidence (e.g. site numbers).
	Legend    map[string]string `json:"legend,omitempty"`
	NeedsRace bool              `json:"-"`
	// FreshProcess: candidates during minimisation must run in a fresh
	// process (race detector state).
	FreshProcess bool `json:"-"`
}
